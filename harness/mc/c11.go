//go:build verif

package mc

import (
	"bytes"
	"fmt"
	"math/big"
	"sort"
	"time"

	disputetypes "github.com/tellor-io/layer/x/dispute/types"
	oracletypes "github.com/tellor-io/layer/x/oracle/types"

	"cosmossdk.io/collections"
	"cosmossdk.io/math"

	sdk "github.com/cosmos/cosmos-sdk/types"
)

func init() {
	Register("C11", &CheckInfo{
		Fn: checkC11, Level: "model_checking",
		Rule: "slash monitor at every transition in which a dispute becomes fully funded: total loss of the report's backers (delegations on every validator + unbonding entries) == category share (1%/5%/100%) of power*1e6 of the report the reporter really submitted, each backer within one unit of its proportional share, dispute account +slash, recorded per-backer origins sum to the slash, jail 0s/600s for warning/minor, the determined aggregate flagged, no slashing for a report that differs from the stored micro-report, expiry after one day moves no stake; evaluated on exhaustive DFS depth 4 (quick) / 5 (thorough) over {undelegate all/half/1 loya, selector undelegate, redelegate all/half, bonding-set change, Block 1s, Propose genuine x 3 categories x full/half/min/from-bond, Propose altered value/power/invented, AddFee rest/1/from-bond, Block 1d+1ms} after a real report in two validator-cap worlds, and on all <=k-deviation histories around the shared skeletons",
		QuickBudget: 10 * time.Minute, ThoroughBudget: 15 * time.Minute,
	})
}

type SlashMonitor struct{}

type slashPre struct {
	disputes map[uint64]disputetypes.Dispute
	staked   map[string]math.Int
	dispBal  math.Int
	feeSum   math.Int
}

func (SlashMonitor) Pre(w *World) interface{} {
	p := &slashPre{disputes: map[uint64]disputetypes.Dispute{}, staked: map[string]math.Int{}, dispBal: w.ModBal("dispute")}
	for _, d := range w.Disputes() {
		p.disputes[d.DisputeId] = d
	}
	for _, a := range w.actors() {
		p.staked[a.String()] = w.vecOf(a).staked
	}
	p.feeSum, _ = disputeLedger(w)
	return p
}

// storedReport finds the micro-report the reporter really submitted (same query, reporter, block).
func storedReport(w *World, r oracletypes.MicroReport) *oracletypes.MicroReport {
	for _, mr := range w.Reports() {
		if mr.Reporter == r.Reporter && bytes.Equal(mr.QueryId, r.QueryId) && mr.BlockNumber == r.BlockNumber {
			mr := mr
			return &mr
		}
	}
	return nil
}

func (SlashMonitor) Post(e *Explorer, before, w *World, pre interface{}, ev *Event, out Outcome) {
	if out.Kind == "tx-rej" || out.Kind == "halt" {
		return
	}
	p := pre.(*slashPre)
	fail := func(oracle, detail string) {
		e.Violate(w, oracle, "slash|"+oracle, fmt.Sprintf("%s (after %s)", detail, ev.Label))
	}
	for _, nd := range w.Disputes() {
		od, existed := p.disputes[nd.DisputeId]
		if nd.DisputeRound > 1 {
			continue
		}
		// an expired dispute stays expired: no later payment revives it or moves stake
		if existed && od.DisputeStatus == disputetypes.Failed && (nd.DisputeStatus != disputetypes.Failed || !nd.FeeTotal.Equal(od.FeeTotal)) {
			fail("expired-dispute-revived", fmt.Sprintf("dispute %d had expired unfunded (failed) and is now %s with fee %s -> %s", nd.DisputeId, nd.DisputeStatus, od.FeeTotal, nd.FeeTotal))
			continue
		}
		// expiry without funding moves no stake
		if existed && od.DisputeStatus == disputetypes.Prevote && nd.DisputeStatus == disputetypes.Failed {
			e.RC.Count("disputes_expired_unfunded", 1)
			for a, s := range p.staked {
				if n := w.vecOf(sdk.MustAccAddressFromBech32(a)).staked; n.AddRaw(3).LT(s) {
					fail("stake-moved-on-expiry", fmt.Sprintf("dispute %d expired unfunded but %s lost stake %s -> %s", nd.DisputeId, short(a), s, n))
				}
			}
			if w.Time().Sub(od.DisputeStartTime) <= 24*time.Hour {
				fail("expired-early", fmt.Sprintf("dispute %d failed at %s, less than one day after %s", nd.DisputeId, w.Time(), od.DisputeStartTime))
			}
			continue
		}
		becameFunded := nd.DisputeStatus == disputetypes.Voting && (!existed || od.DisputeStatus == disputetypes.Prevote)
		if becameFunded && nd.FeeTotal.LT(requiredFee(nd)) {
			fail("voting-without-full-fee", fmt.Sprintf("dispute %d entered voting with fee %s of the required %s", nd.DisputeId, nd.FeeTotal, requiredFee(nd)))
			continue
		}
		if !becameFunded {
			if nd.DisputeStatus == disputetypes.Prevote && (!existed || !od.FeeTotal.Equal(nd.FeeTotal)) {
				// ... unless it in fact received the whole fee: then it has to start (slash, jail, vote)
				if paid := w.ModBal("dispute").Sub(p.dispBal); nd.FeeTotal.GTE(requiredFee(nd)) || (!existed && paid.GTE(requiredFee(nd)) && requiredFee(nd).IsPositive()) {
					fail("funded-dispute-not-started", fmt.Sprintf("dispute %d holds fee %s (the dispute account received %s) of the required %s but is still in prevote", nd.DisputeId, nd.FeeTotal, paid, requiredFee(nd)))
				}
				// a payment that leaves the dispute unfunded: no backer of the report loses stake (the payer's own
				// selectors excepted when the fee is taken from stake)
				e.RC.Count("payments_leaving_unfunded", 1)
				exempt := map[string]bool{}
				if ev.Msgs != nil {
					for _, m := range ev.Msgs(before) {
						switch x := m.(type) {
						case *disputetypes.MsgProposeDispute:
							if x.PayFromBond {
								addSelectorsOf(before, exempt, x.Creator)
							}
						case *disputetypes.MsgAddFeeToDispute:
							if x.PayFromBond {
								addSelectorsOf(before, exempt, x.Creator)
							}
						}
					}
				}
				backers := map[string]bool{}
				addBackers(before, backers, nd.InitialEvidence.Reporter, nd.InitialEvidence.QueryId, nd.InitialEvidence.BlockNumber)
				for a := range backers {
					if s, ok := p.staked[a]; ok && !exempt[a] {
						if n := w.vecOf(sdk.MustAccAddressFromBech32(a)).staked; n.AddRaw(3).LT(s) {
							fail("slashed-before-funded", fmt.Sprintf("dispute %d holds fee %s of the required %s but backer %s lost stake %s -> %s", nd.DisputeId, nd.FeeTotal, requiredFee(nd), short(a), s, n))
						}
					}
				}
			}
			continue
		}
		e.RC.Count("disputes_funded", 1)
		rep := nd.InitialEvidence
		real := storedReport(before, rep)
		cls := "genuine"
		switch {
		case real == nil:
			cls = "invented"
		case real.Value != rep.Value:
			cls = "altered-value"
		case real.Power != rep.Power:
			cls = "altered-power"
		case real.QueryType != rep.QueryType || real.AggregateMethod != rep.AggregateMethod || !real.Timestamp.Equal(rep.Timestamp) || real.Cyclelist != rep.Cyclelist:
			cls = "altered-other"
		}
		e.RC.Distinct("funded_dispute_classes", cls+"/"+nd.DisputeCategory.String())
		if cls != "genuine" {
			fail("slashed-for-unsubmitted-report|"+cls, fmt.Sprintf("dispute %d was funded and slashed on a report that is not the stored micro-report (%s): msg value=%s power=%d", nd.DisputeId, cls, short(rep.Value), rep.Power))
			continue
		}
		var pct int64
		var jailSecs int64 = -1
		switch nd.DisputeCategory {
		case disputetypes.Warning:
			pct, jailSecs = 1, 0
		case disputetypes.Minor:
			pct, jailSecs = 5, 600
		case disputetypes.Major:
			pct = 100
		}
		want := math.NewInt(int64(real.Power)).MulRaw(TRB).MulRaw(pct).QuoRaw(100)
		if !nd.SlashAmount.Equal(want) {
			fail("slash-amount", fmt.Sprintf("dispute %d slash amount %s, category share is %s", nd.DisputeId, nd.SlashAmount, want))
		}
		ra := sdk.MustAccAddressFromBech32(rep.Reporter)
		snap, err := before.App.ReporterKeeper.Report.Get(before.Ctx, collections.Join(rep.QueryId, collections.Join(ra.Bytes(), rep.BlockNumber)))
		if err != nil {
			fail("no-snapshot", "no stake snapshot for the disputed report")
			continue
		}
		byDel := map[string]math.Int{}
		for _, o := range snap.TokenOrigins {
			k := sdk.AccAddress(o.DelegatorAddress).String()
			if _, ok := byDel[k]; !ok {
				byDel[k] = math.ZeroInt()
			}
			byDel[k] = byDel[k].Add(o.Amount)
		}
		// payers from bond in this very tx also lose stake: exclude their fee part
		fromBondPayer := ""
		if ev.Msgs != nil {
			for _, m := range ev.Msgs(before) {
				switch x := m.(type) {
				case *disputetypes.MsgProposeDispute:
					if x.PayFromBond {
						fromBondPayer = x.Creator
					}
				case *disputetypes.MsgAddFeeToDispute:
					if x.PayFromBond {
						fromBondPayer = x.Creator
					}
				}
			}
		}
		total := math.ZeroInt()
		var dels []string
		for k := range byDel {
			dels = append(dels, k)
		}
		sort.Strings(dels)
		// exact prediction of known finding F-slash-denominator: shares are taken relative to power*1e6 (not to the
		// recorded stake) and the last origin absorbs the difference
		predicted := map[string]math.Int{}
		{
			denom := math.NewInt(int64(real.Power)).MulRaw(TRB)
			left := want
			for i, o := range snap.TokenOrigins {
				sh := math.LegacyNewDecFromInt(o.Amount).Quo(math.LegacyNewDecFromInt(denom)).Mul(math.LegacyNewDecFromInt(want)).RoundInt()
				left = left.Sub(sh)
				if i == len(snap.TokenOrigins)-1 {
					sh = sh.Add(left)
				}
				k := sdk.AccAddress(o.DelegatorAddress).String()
				if _, ok := predicted[k]; !ok {
					predicted[k] = math.ZeroInt()
				}
				predicted[k] = predicted[k].Add(sh)
			}
		}
		for _, k := range dels {
			o, ok := p.staked[k]
			if !ok {
				continue
			}
			loss := o.Sub(w.vecOf(sdk.MustAccAddressFromBech32(k)).staked)
			total = total.Add(loss)
			if fromBondPayer != "" {
				continue // per-backer shares are mixed with the fee taken from the same stake
			}
			share := new(big.Rat).Mul(new(big.Rat).SetInt(want.BigInt()), new(big.Rat).SetFrac(byDel[k].BigInt(), snap.Total.BigInt()))
			diff := new(big.Rat).Sub(new(big.Rat).SetInt(loss.BigInt()), share)
			if diff.Abs(diff).Cmp(big.NewRat(int64(len(snap.TokenOrigins))+1, 1)) > 0 {
				cls := ""
				if !snap.Total.Equal(math.NewInt(int64(real.Power)).MulRaw(TRB)) && loss.Equal(predicted[k]) {
					cls = "|fractional-stake-power-denominator"
				}
				fail("backer-share"+cls, fmt.Sprintf("backer %s lost %s, proportional share of %s is %s (recorded stake %s, power %d)", short(k), loss, want, share.FloatString(2), snap.Total, real.Power))
			}
		}
		if fromBondPayer == "" {
			if !total.Equal(want) {
				fail("total-slash", fmt.Sprintf("backers lost %s in total, category share is %s", total, want))
			}
			fs, _ := disputeLedger(w)
			if got := w.ModBal("dispute").Sub(p.dispBal).Sub(fs.Sub(p.feeSum)); !got.Equal(want) {
				fail("escrowed-amount", fmt.Sprintf("dispute account received %s of stake, category share is %s", got, want))
			}
		}
		rec, err := w.App.ReporterKeeper.DisputedDelegationAmounts.Get(w.Ctx, nd.HashId)
		if err != nil {
			fail("no-slash-record", "no per-backer record of the slashed stake")
		} else {
			s := math.ZeroInt()
			for _, o := range rec.TokenOrigins {
				s = s.Add(o.Amount)
			}
			if !s.Equal(want) || !rec.Total.Equal(want) {
				fail("slash-record", fmt.Sprintf("per-backer record sums to %s (total %s), slashed %s", s, rec.Total, want))
			}
		}
		if jailSecs >= 0 {
			rp, err := w.App.ReporterKeeper.Reporters.Get(w.Ctx, ra)
			if err != nil || !rp.Jailed {
				fail("not-jailed", "reporter not jailed after a funded warning/minor dispute")
			} else if wantUntil := before.Time().Add(time.Duration(jailSecs) * time.Second); !rp.JailedUntil.Equal(wantUntil) {
				fail("jail-duration", fmt.Sprintf("jailed until %s, want %s", rp.JailedUntil, wantUntil))
			}
		}
		for _, a := range w.Aggregates() {
			if bytes.Equal(a.QueryId, rep.QueryId) && a.Agg.MicroHeight == rep.BlockNumber && a.Agg.AggregateReporter == rep.Reporter && !a.Agg.Flagged {
				fail("aggregate-not-flagged", "the aggregate determined by the disputed report was not flagged")
			}
		}
	}
}

func checkC11(rc *RunCtx) {
	mons := []Monitor{SlashMonitor{}}
	depth := 4
	if !rc.Quick() {
		depth = 5
	}
	keep := func(l string) bool {
		return hasAnyPrefix(l, "Undelegate(R1,V1,", "Undelegate(S1,V1,all)", "Redelegate(R1,V1->V2,", "Delegate(Payer,V3,150)",
			"Propose(Payer,R1rep,", "Propose(R2,R1rep,warning,frombond)", "Propose(Payer,R1rep-", "Propose(Payer,invented", "AddFee(", "Unjail(R1)")
	}
	gaps := []time.Duration{time.Second, 24*time.Hour + time.Millisecond}
	prep := []string{"Submit(R1,cyc,std)", "Submit(R2,cyc,std200)", b1, b1, b1}
	hz := []time.Duration{24*time.Hour + time.Millisecond, time.Second}
	focusedDFS(rc, "slash-dfs", Config{}, false, prep, keep, gaps, mons, depth, hz)
	focusedDFS(rc, "slash-dfs-maxval2", Config{ValStakes: []int64{5000, 3000, 2900}, MaxValidators: 2}, false, prep, keep, gaps, mons, depth, hz)
	runSkeletons(rc, mons, kOf(rc), skDispute...)
}
