//go:build verif

package mc

import (
	"bytes"
	"fmt"
	"strings"

	disputetypes "github.com/tellor-io/layer/x/dispute/types"
	registrytypes "github.com/tellor-io/layer/x/registry/types"
	reportertypes "github.com/tellor-io/layer/x/reporter/types"

	"cosmossdk.io/collections"
	"cosmossdk.io/math"

	sdk "github.com/cosmos/cosmos-sdk/types"
	stakingtypes "github.com/cosmos/cosmos-sdk/x/staking/types"
)

// FrameMonitor is the C19 oracle: privileged messages need the authority, and
// every other accepted message leaves the assets of all third parties intact.
type FrameMonitor struct{}

type acctVec struct {
	liquid, staked math.Int
	credit         math.LegacyDec
	reporter       string
}

type framePre struct {
	vec   map[string]acctVec
	specs map[string]string
}

func (w *World) actors() []sdk.AccAddress {
	var l []sdk.AccAddress
	for _, u := range w.Usr {
		l = append(l, u.Acc)
	}
	for _, v := range w.Vals {
		l = append(l, v.Acc)
	}
	return append(l, w.Team.Acc)
}

func (w *World) vecOf(a sdk.AccAddress) acctVec {
	v := acctVec{liquid: w.Bal(a), staked: math.ZeroInt(), credit: math.LegacyZeroDec()}
	sk := w.App.StakingKeeper
	_ = sk.IterateDelegatorDelegations(w.Ctx, a, func(d stakingtypes.Delegation) bool {
		va, _ := sdk.ValAddressFromBech32(d.ValidatorAddress)
		if val, err := sk.GetValidator(w.Ctx, va); err == nil {
			v.staked = v.staked.Add(val.TokensFromShares(d.Shares).TruncateInt())
		}
		return false
	})
	if ubds, err := sk.GetUnbondingDelegations(w.Ctx, a, 100); err == nil {
		for _, u := range ubds {
			for _, en := range u.Entries {
				v.staked = v.staked.Add(en.Balance)
			}
		}
	}
	if c, err := w.App.ReporterKeeper.SelectorTips.Get(w.Ctx, a); err == nil {
		v.credit = c
	}
	if s, err := w.App.ReporterKeeper.Selectors.Get(w.Ctx, a); err == nil {
		v.reporter = sdk.AccAddress(s.Reporter).String()
	}
	return v
}

func (w *World) specDump() map[string]string {
	out := map[string]string{}
	_ = w.App.RegistryKeeper.SpecRegistry.Walk(w.Ctx, nil, func(k string, v registrytypes.DataSpec) (bool, error) {
		out[k] = v.String()
		return false, nil
	})
	return out
}

func (FrameMonitor) Pre(w *World) interface{} {
	p := &framePre{vec: map[string]acctVec{}, specs: w.specDump()}
	for _, a := range w.actors() {
		p.vec[a.String()] = w.vecOf(a)
	}
	return p
}

func (FrameMonitor) Post(e *Explorer, before, w *World, pre interface{}, ev *Event, out Outcome) {
	if out.Kind != "tx-ok" {
		return
	}
	p := pre.(*framePre)
	fail := func(oracle, detail string) {
		e.Violate(w, oracle, "frame|"+oracle+"|"+evClass(ev), fmt.Sprintf("%s (accepted tx %s)", detail, ev.Label))
	}
	if strings.HasSuffix(ev.Tag, "/nonauth") {
		fail("privileged-without-authority", "a privileged message signed by a non-authority account was accepted")
	}
	var msgs []sdk.Msg
	if ev.Msgs != nil {
		msgs = ev.Msgs(before)
	}
	signers := map[string]bool{}
	allowStake := map[string]bool{}  // accounts whose stake may legitimately shrink
	allowSelect := map[string]bool{} // accounts whose selection may legitimately change
	govOnly := false
	for _, m := range msgs {
		ss, _, err := w.App.AppCodec().GetMsgV1Signers(m)
		if err == nil {
			for _, s := range ss {
				signers[sdk.AccAddress(s).String()] = true
			}
		}
		switch x := m.(type) {
		case *disputetypes.MsgProposeDispute:
			// only a funded dispute has consequences for the disputed reporter and its backers
			if fundedAfter(before, w, 0, x.Report.Reporter, x.Report.QueryId, x.Report.BlockNumber) {
				addBackers(before, allowStake, x.Report.Reporter, x.Report.QueryId, x.Report.BlockNumber)
			}
			if x.PayFromBond {
				addSelectorsOf(before, allowStake, x.Creator)
			}
		case *disputetypes.MsgAddFeeToDispute:
			if d, err := before.App.DisputeKeeper.Disputes.Get(before.Ctx, x.DisputeId); err == nil &&
				fundedAfter(before, w, x.DisputeId, d.InitialEvidence.Reporter, d.InitialEvidence.QueryId, d.InitialEvidence.BlockNumber) {
				addBackers(before, allowStake, d.InitialEvidence.Reporter, d.InitialEvidence.QueryId, d.InitialEvidence.BlockNumber)
			}
			if x.PayFromBond {
				addSelectorsOf(before, allowStake, x.Creator)
			}
		case *reportertypes.MsgRemoveSelector:
			// the exception covers only a selector that fell below its reporter's minimum
			if selectorBelowMin(before, x.SelectorAddress) {
				allowSelect[x.SelectorAddress] = true
			}
		case *registrytypes.MsgRegisterSpec:
			_ = x
		}
	}
	_ = govOnly
	for _, a := range w.actors() {
		k := a.String()
		if signers[k] {
			continue
		}
		o, n := p.vec[k], w.vecOf(a)
		if n.liquid.LT(o.liquid) {
			fail("third-party-balance-reduced", fmt.Sprintf("liquid balance of non-signer %s fell %s -> %s", short(k), o.liquid, n.liquid))
		}
		if n.staked.AddRaw(3).LT(o.staked) && !allowStake[k] {
			fail("third-party-stake-reduced", fmt.Sprintf("delegated stake of non-signer %s fell %s -> %s", short(k), o.staked, n.staked))
		}
		if n.credit.LT(o.credit) {
			fail("third-party-credit-reduced", fmt.Sprintf("reward credit of non-signer %s fell %s -> %s", short(k), o.credit, n.credit))
		}
		if n.reporter != o.reporter && !allowSelect[k] {
			fail("third-party-selection-changed", fmt.Sprintf("reporter selection of non-signer %s changed %q -> %q", short(k), o.reporter, n.reporter))
		}
	}
	// registered specs may change only through the authority-gated update message
	isUpdate := false
	for _, m := range msgs {
		if _, ok := m.(*registrytypes.MsgUpdateDataSpec); ok {
			isUpdate = true
		}
	}
	if !isUpdate {
		now := w.specDump()
		for k, v := range p.specs {
			if nv, ok := now[k]; !ok || nv != v {
				fail("spec-replaced", fmt.Sprintf("registered data spec %q changed without MsgUpdateDataSpec", k))
			}
		}
	}
	e.RC.Count("frame_checked_txs", 1)
}

// requiredFee is the fee that funds a dispute: the category share (1%/5%/100%) of the disputed report's power.
func requiredFee(d disputetypes.Dispute) math.Int {
	stake := math.NewInt(int64(d.InitialEvidence.Power)).MulRaw(TRB)
	switch d.DisputeCategory {
	case disputetypes.Warning:
		return stake.QuoRaw(100)
	case disputetypes.Minor:
		return stake.QuoRaw(20)
	}
	return stake
}

// fundedAfter reports whether, after the transaction, a dispute on that report (the given id, or any dispute
// that the transaction created or paid into) has received its full fee.
func fundedAfter(before, after *World, id uint64, reporter string, queryId []byte, height uint64) bool {
	for _, d := range after.Disputes() {
		if id != 0 && d.DisputeId != id {
			continue
		}
		ev := d.InitialEvidence
		if ev.Reporter != reporter || !bytes.Equal(ev.QueryId, queryId) || ev.BlockNumber != height {
			continue
		}
		if id == 0 {
			if od, err := before.App.DisputeKeeper.Disputes.Get(before.Ctx, d.DisputeId); err == nil && od.FeeTotal.Equal(d.FeeTotal) {
				continue // untouched by this transaction
			}
		}
		if d.FeeTotal.GTE(requiredFee(d)) {
			return true
		}
	}
	return false
}

func addBackers(w *World, set map[string]bool, reporter string, queryId []byte, height uint64) {
	ra, err := sdk.AccAddressFromBech32(reporter)
	if err != nil {
		return
	}
	set[ra.String()] = true
	rep, err := w.App.ReporterKeeper.Report.Get(w.Ctx, collections.Join(queryId, collections.Join(ra.Bytes(), height)))
	if err != nil {
		return
	}
	for _, o := range rep.TokenOrigins {
		set[sdk.AccAddress(o.DelegatorAddress).String()] = true
	}
}

func addSelectorsOf(w *World, set map[string]bool, reporter string) {
	ra, err := sdk.AccAddressFromBech32(reporter)
	if err != nil {
		return
	}
	_ = w.App.ReporterKeeper.Selectors.Walk(w.Ctx, nil, func(k []byte, s reportertypes.Selection) (bool, error) {
		if bytes.Equal(s.Reporter, ra.Bytes()) {
			set[sdk.AccAddress(k).String()] = true
		}
		return false, nil
	})
}

// selectorBelowMin: the selector's stake with bonded validators (all its delegations together) is below the minimum its reporter asks for.
func selectorBelowMin(w *World, selector string) bool {
	sa, err := sdk.AccAddressFromBech32(selector)
	if err != nil {
		return false
	}
	sel, err := w.App.ReporterKeeper.Selectors.Get(w.Ctx, sa)
	if err != nil {
		return false
	}
	rep, err := w.App.ReporterKeeper.Reporters.Get(w.Ctx, sel.Reporter)
	if err != nil {
		return false
	}
	bonded := math.ZeroInt()
	sk := w.App.StakingKeeper
	_ = sk.IterateDelegatorDelegations(w.Ctx, sa, func(d stakingtypes.Delegation) bool {
		va, _ := sdk.ValAddressFromBech32(d.ValidatorAddress)
		if val, err := sk.GetValidator(w.Ctx, va); err == nil && val.IsBonded() {
			bonded = bonded.Add(val.TokensFromShares(d.Shares).TruncateInt())
		}
		return false
	})
	return bonded.LT(rep.MinTokensRequired)
}
