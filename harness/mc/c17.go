//go:build verif

package mc

import (
	"bytes"
	"crypto/sha256"
	"encoding/hex"
	"encoding/json"
	"fmt"
	"reflect"
	"sort"
	"time"

	abci "github.com/cometbft/cometbft/abci/types"
	cmtproto "github.com/cometbft/cometbft/proto/tendermint/types"
	protoio "github.com/cosmos/gogoproto/io"
	ethcommon "github.com/ethereum/go-ethereum/common"
	ethcrypto "github.com/ethereum/go-ethereum/crypto"
	"github.com/tellor-io/layer/app"
	bridgetypes "github.com/tellor-io/layer/x/bridge/types"

	"cosmossdk.io/collections"

	"github.com/cosmos/cosmos-sdk/baseapp"
	"github.com/cosmos/cosmos-sdk/crypto/keys/secp256k1"
	sdk "github.com/cosmos/cosmos-sdk/types"
)

func init() {
	Register("C17", &CheckInfo{
		Fn: checkC17, Level: "model_checking",
		Rule: "every extended commit of 3 validators with per-validator (flag in {commit, absent, nil, nil carrying one of 5 unauthenticated extensions}) x (payload in {empty, {}, null fields, own initial signatures, another validator's (replayed) initial signatures, invalid signatures, valset signature for the right / a wrong timestamp / 66 bytes, attestation for the current / an unknown / a duplicated snapshot, truncated JSON, random bytes}) - 21^3 commits with real ed25519 extension signatures - is run in 3 worlds (validator set unchanged / reordered after the snapshot / reordered by a checkpoint recorded in the very block of the snapshot) through the real PrepareProposalHandler, ProcessProposalHandler (baseapp's recover reproduced), VerifyVoteExtensionHandler and the real PreBlocker closure; oracles: Process(Prepare(commit)) accepts whenever baseapp.ValidateVoteExtensions accepts the commit; the injected data equals an independent reading of the extensions; every single-element mutation (change/delete/insert/swap in each of the 8 injected lists) of an accepted proposal is rejected; the store difference across PreBlocker is exactly what the extensions imply (EVM address only for unregistered operators and equal to the sender's own key; signatures/attestations only in the sender's slot); no panic escapes PreBlocker, recovered panics are counted",
		Assume:      []string{"block_height and extended_commit_info in the injected tx are not bridge data and are not mutated", "ExtendVoteHandler needs a node keyring and is exercised only for its no-key path", "the relayer-side meaning of a signature (ecrecover) is C15/C16's subject; here signatures are opaque bytes"},
		QuickBudget: 10 * time.Minute, ThoroughBudget: 15 * time.Minute,
	})
}

type refVoteExt struct {
	OracleAttestations []struct {
		Snapshot    []byte
		Attestation []byte
	}
	InitialSignature struct {
		SignatureA []byte
		SignatureB []byte
	}
	ValsetSignature struct {
		Signature []byte
		Timestamp uint64
	}
}

func signExt(v *Validator, ext []byte, height, round int64) []byte {
	cve := cmtproto.CanonicalVoteExtension{Extension: ext, Height: height, Round: round, ChainId: ChainID}
	var buf bytes.Buffer
	if err := protoio.NewDelimitedWriter(&buf).WriteMsg(&cve); err != nil {
		panic(err)
	}
	sig, err := v.ConsPriv.Sign(buf.Bytes())
	if err != nil {
		panic(err)
	}
	return sig
}

func initialSigs(v *Validator) ([]byte, []byte) {
	key := secp256k1.PrivKey{Key: v.EVMPriv}
	hA, hB := sha256.Sum256([]byte("TellorLayer: Initial bridge signature A")), sha256.Sum256([]byte("TellorLayer: Initial bridge signature B"))
	a, _ := key.Sign(hA[:])
	b, _ := key.Sign(hB[:])
	return a, b
}

// refRecover mirrors the documented registration rule: the address both signatures recover to.
func refRecover(sigA, sigB []byte) ([]byte, bool) {
	if len(sigA) < 64 || len(sigB) < 64 {
		return nil, false
	}
	hA, hB := sha256.Sum256([]byte("TellorLayer: Initial bridge signature A")), sha256.Sum256([]byte("TellorLayer: Initial bridge signature B"))
	dA, dB := sha256.Sum256(hA[:]), sha256.Sum256(hB[:])
	var as, bs [][]byte
	for _, id := range []byte{0, 1} {
		pa, ea := ethcrypto.SigToPub(dA[:], append(append([]byte(nil), sigA[:64]...), id))
		pb, eb := ethcrypto.SigToPub(dB[:], append(append([]byte(nil), sigB[:64]...), id))
		if ea != nil || eb != nil {
			return nil, false
		}
		as = append(as, ethcrypto.PubkeyToAddress(*pa).Bytes())
		bs = append(bs, ethcrypto.PubkeyToAddress(*pb).Bytes())
	}
	for _, a := range as {
		for _, b := range bs {
			if bytes.Equal(a, b) {
				return a, true
			}
		}
	}
	return nil, false
}

type c17World struct {
	name string
	w    *World
	vals []*Validator // in commit order (power desc, address asc)
	pow  []int64
	snap []byte // a snapshot requested at the previous height
	cpTs uint64 // latest checkpoint timestamp (index >= 1)
}

func mkC17World(mode int) *c17World {
	reorder := mode == 1
	reg := []bool{true, true, false}
	if mode != 0 {
		reg = []bool{true, true, true}
	}
	w := NewWorld(Config{RegisterEVM: reg, ValStakes: []int64{5000, 3000, 2800}})
	c := StdSetup(w, false)
	// a second checkpoint (so that valset signatures have slots): shift power by > 5% (in a new 12h stake-change period)
	mustBlock(w, 12*time.Hour)
	mustBlock(w, time.Second) // the baseline is refreshed at the EndBlock after the 12 hours
	must(w, "shift", MsgDelegate(c.Payer.Acc, w.Vals[0], 480*TRB))
	mustBlock(w, time.Second)
	mustBlock(w, time.Second)
	if idx, err := w.App.BridgeKeeper.LatestCheckpointIdx.Get(w.Ctx); err != nil || idx.Index < 1 {
		// with three registered validators 480 TRB is below 5% of the set: a second step in the next period
		mustBlock(w, 12*time.Hour)
		mustBlock(w, time.Second)
		must(w, "shift-2", MsgDelegate(c.Payer.Acc, w.Vals[0], 200*TRB))
		mustBlock(w, time.Second)
		mustBlock(w, time.Second)
	}
	if idx, err := w.App.BridgeKeeper.LatestCheckpointIdx.Get(w.Ctx); err != nil || idx.Index < 1 {
		panic("C17 setup: no second checkpoint")
	}
	if mode == 2 {
		// the validator set is reordered (V3 overtakes V2) by a shift that stays below 5%, so no checkpoint records it yet ...
		before, _ := w.App.BridgeKeeper.LatestCheckpointIdx.Get(w.Ctx)
		mustBlock(w, 12*time.Hour)
		mustBlock(w, time.Second)
		must(w, "overtake", MsgDelegate(c.Tipper.Acc, w.Vals[2], 560*TRB))
		mustBlock(w, 12*time.Hour)
		mustBlock(w, time.Second)
		if mid, _ := w.App.BridgeKeeper.LatestCheckpointIdx.Get(w.Ctx); mid.Index != before.Index {
			panic("C17 setup: the sub-5% shift already produced a checkpoint")
		}
		// ... and the small delegation that completes the 5% lands in the very block in which the report is aggregated:
		// the new checkpoint and the snapshot carry the same timestamp
		must(w, "report", MsgSubmit(c.R1.Acc, w.CycleQuery(), U256(100)))
		exp := uint64(0)
		for _, q := range w.Queries() {
			if q.Meta.HasRevealedReports {
				exp = q.Meta.Expiration
			}
		}
		for uint64(w.Height()) < exp {
			mustBlock(w, time.Second)
		}
		must(w, "complete-5%", MsgDelegate(c.Tipper.Acc, w.Vals[2], 60*TRB))
		mustBlock(w, time.Second)
		after, _ := w.App.BridgeKeeper.LatestCheckpointIdx.Get(w.Ctx)
		if after.Index == before.Index || len(w.Aggregates()) == 0 {
			panic(fmt.Sprintf("C17 setup: checkpoint and aggregate did not fall into one block (checkpoint %d -> %d, aggregates %d)", before.Index, after.Index, len(w.Aggregates())))
		}
	} else {
		// an aggregate -> a snapshot -> attestation requests
		must(w, "report", MsgSubmit(c.R1.Acc, w.CycleQuery(), U256(100)))
	}
	for i := 0; i < 3 && len(w.Aggregates()) == 0; i++ {
		mustBlock(w, time.Second)
	}
	if len(w.Aggregates()) == 0 {
		panic("C17 setup: no aggregate")
	}
	if reorder {
		// V3 overtakes V2 after the snapshot was created and a new checkpoint records the reordered set:
		// indexes in the current set differ from those the snapshot's attestation array was sized for
		before, _ := w.App.BridgeKeeper.LatestCheckpointIdx.Get(w.Ctx)
		mustBlock(w, 12*time.Hour)
		mustBlock(w, time.Second)
		must(w, "reorder-1", MsgDelegate(c.Tipper.Acc, w.Vals[2], 500*TRB))
		mustBlock(w, 12*time.Hour)
		mustBlock(w, time.Second)
		must(w, "reorder-2", MsgDelegate(c.Tipper.Acc, w.Vals[2], 150*TRB))
		mustBlock(w, time.Second)
		mustBlock(w, time.Second)
		after, _ := w.App.BridgeKeeper.LatestCheckpointIdx.Get(w.Ctx)
		if after.Index == before.Index {
			panic("C17 setup: reordering did not produce a new checkpoint")
		}
	}
	cw := &c17World{name: []string{"stable-valset", "reordered-valset", "valset-updated-in-snapshot-block"}[mode], w: w}
	return cw
}

// stage finishes the current block and positions a context where PrepareProposal of the next height runs.
func (cw *c17World) stage() (*World, int64) {
	f := cw.w.Fork()
	if _, err := f.App.EndBlocker(f.Ctx); err != nil {
		panic(err)
	}
	h := f.Height() + 1
	t := f.Time().Add(time.Second)
	hdr := f.Ctx.BlockHeader()
	hdr.Height, hdr.Time = h, t
	f.Ctx = f.Ctx.WithBlockHeader(hdr).WithHeaderInfo(headerInfo(h, t)).WithEventManager(sdk.NewEventManager())
	return f, h
}

func checkC17(rc *RunCtx) {
	for mode := 0; mode < 3; mode++ {
		cw := mkC17World(mode)
		if rc.Replay != nil && rc.Replay.Scenario != cw.name {
			continue
		}
		c17Run(rc, cw)
	}
}

func c17Run(rc *RunCtx, cw *c17World) { c17RunMode(rc, cw, false) }

// c17RunMode: nodeStateOnly restricts the enumeration to commits whose votes are {valset signature, attestation, absent}
// and evaluates only the node-local-state oracle (used by C01: the same block must execute identically on a node that
// validated another proposal for that height before).
func c17RunMode(rc *RunCtx, cw *c17World, nodeStateOnly bool) {
	f0, h := cw.stage()
	bk := f0.App.BridgeKeeper
	// validators in commit order
	bonded, _ := f0.App.StakingKeeper.GetBondedValidatorsByPower(f0.Ctx)
	type vinfo struct {
		v     *Validator
		power int64
		cons  []byte
	}
	var vs []vinfo
	for _, bv := range bonded {
		for _, v := range cw.w.Vals {
			if bv.OperatorAddress == v.Val.String() {
				ca, _ := bv.GetConsAddr()
				vs = append(vs, vinfo{v, bv.GetConsensusPower(sdk.DefaultPowerReduction), ca})
			}
		}
	}
	sort.SliceStable(vs, func(i, j int) bool {
		if vs[i].power != vs[j].power {
			return vs[i].power > vs[j].power
		}
		return bytes.Compare(vs[i].cons, vs[j].cons) < 0
	})
	// state facts
	idx, _ := bk.LatestCheckpointIdx.Get(f0.Ctx)
	cpTs, _ := bk.ValidatorCheckpointIdxMap.Get(f0.Ctx, idx.Index)
	params, _ := bk.ValidatorCheckpointParamsMap.Get(f0.Ctx, cpTs.Timestamp)
	var snap []byte
	if reqs, err := bk.AttestRequestsByHeightMap.Get(f0.Ctx, uint64(h-1)); err == nil && len(reqs.Requests) > 0 {
		snap = reqs.Requests[0].Snapshot
	} else {
		// take any known snapshot
		_ = bk.SnapshotToAttestationsMap.Walk(f0.Ctx, nil, func(k []byte, _ bridgetypes.OracleAttestations) (bool, error) { snap = k; return true, nil })
	}
	if snap == nil {
		rc.HarnessError("C17: no attestation snapshot in the prepared state")
		return
	}
	mk := func(x interface{}) []byte { bz, _ := json.Marshal(x); return bz }
	payload := func(vi int, kind int) []byte {
		v := vs[vi].v
		other := vs[(vi+1)%len(vs)].v
		var ext app.BridgeVoteExtension
		evmSign := func(who *Validator, msg []byte) []byte {
			k := secp256k1.PrivKey{Key: who.EVMPriv}
			s, _ := k.Sign(msg)
			return s
		}
		switch kind {
		case 0:
			return nil
		case 1:
			return []byte(`{}`)
		case 2:
			return []byte(`{"OracleAttestations":null,"InitialSignature":{"SignatureA":null,"SignatureB":null},"ValsetSignature":{"Signature":null,"Timestamp":0}}`)
		case 3:
			ext.InitialSignature.SignatureA, ext.InitialSignature.SignatureB = initialSigs(v)
		case 4:
			ext.InitialSignature.SignatureA, ext.InitialSignature.SignatureB = initialSigs(other)
		case 5:
			ext.InitialSignature.SignatureA, ext.InitialSignature.SignatureB = bytes.Repeat([]byte{7}, 64), bytes.Repeat([]byte{9}, 64)
		case 6:
			ext.ValsetSignature = app.BridgeValsetSignature{Signature: evmSign(v, params.Checkpoint), Timestamp: cpTs.Timestamp}
		case 7:
			ext.ValsetSignature = app.BridgeValsetSignature{Signature: evmSign(v, params.Checkpoint), Timestamp: cpTs.Timestamp + 1}
		case 8:
			ext.ValsetSignature = app.BridgeValsetSignature{Signature: bytes.Repeat([]byte{5}, 66), Timestamp: cpTs.Timestamp}
		case 9:
			ext.OracleAttestations = []app.OracleAttestation{{Snapshot: snap, Attestation: evmSign(v, snap)}}
		case 10:
			ext.OracleAttestations = []app.OracleAttestation{{Snapshot: bytes.Repeat([]byte{0xee}, 32), Attestation: evmSign(v, snap)}}
		case 11:
			ext.OracleAttestations = []app.OracleAttestation{{Snapshot: snap, Attestation: evmSign(v, snap)}, {Snapshot: snap, Attestation: bytes.Repeat([]byte{1}, 64)}}
		case 12:
			full := mk(app.BridgeVoteExtension{ValsetSignature: app.BridgeValsetSignature{Signature: evmSign(v, params.Checkpoint), Timestamp: cpTs.Timestamp}})
			return full[:len(full)/2]
		case 13:
			return []byte{0xff, 0x00, 0x7b, 0x22, 0xfe}
		}
		return mk(ext)
	}
	const nPayload = 14
	// a vote that is not a commit vote may still carry extension bytes; nobody checked their signature
	nilPayloads := []int{3, 4, 6, 9, 13}
	nOpt := nPayload + 2 + len(nilPayloads) // + absent + nil + nil carrying an (unauthenticated) extension
	ph, vh := f0.App.VerifProposalHandler(), f0.App.VerifVoteExtHandler()
	pre := f0.App.VerifPreBlocker()
	fail := func(oracle, detail string, desc []string) {
		rc.Violate(Violation{Oracle: oracle, Sig: "voteext|" + oracle, Detail: detail + " [world " + cw.name + "]", Scenario: cw.name, Trace: desc, NDev: len(desc)})
	}
	// VerifyVoteExtension on every payload
	for vi := range vs {
		for k := 0; k < nPayload; k++ {
			func() {
				defer func() {
					if r := recover(); r != nil {
						rc.Distinct("recovered_handler_panics", fmt.Sprintf("VerifyVoteExtension payload %d: %v", k, r))
					}
				}()
				_, _ = vh.VerifyVoteExtensionHandler(f0.Ctx, &abci.RequestVerifyVoteExtension{Height: h - 1, ValidatorAddress: vs[vi].v.Val, VoteExtension: payload(vi, k)})
				rc.Count("verify_calls", 1)
			}()
		}
	}
	total := nOpt * nOpt * nOpt
	var prevAccepted [][]byte // the last accepted proposal with other content (same height)
	for code := 0; code < total; code++ {
		if nodeStateOnly {
			ok := true
			for _, o := range []int{code % nOpt, (code / nOpt) % nOpt, code / (nOpt * nOpt)} {
				ok = ok && (o == 6 || o == 9 || o == nPayload)
			}
			if !ok {
				continue
			}
		} else if !rc.Mine() {
			continue
		}
		if rc.TimeUp() {
			rc.Cap()
			return
		}
		opts := []int{code % nOpt, (code / nOpt) % nOpt, code / (nOpt * nOpt)}
		var desc []string
		ec := abci.ExtendedCommitInfo{Round: 0}
		lc := abci.CommitInfo{Round: 0}
		type expReg struct{ op, evm string }
		var wantOps, wantEvms []string
		var wantVsOps, wantVsSigs []string
		var wantVsTs []int64
		var wantAtt, wantSnap [][]byte
		var wantAttOps []string
		for i, o := range opts {
			if i >= len(vs) {
				break
			}
			v := vs[i]
			vote := abci.ExtendedVoteInfo{Validator: abci.Validator{Address: v.cons, Power: v.power}}
			switch {
			case o == nPayload:
				vote.BlockIdFlag = cmtproto.BlockIDFlagAbsent
				desc = append(desc, v.v.Name+":absent")
			case o == nPayload+1:
				vote.BlockIdFlag = cmtproto.BlockIDFlagNil
				desc = append(desc, v.v.Name+":nil")
			case o > nPayload+1:
				vote.BlockIdFlag = cmtproto.BlockIDFlagNil
				vote.VoteExtension = payload(i, nilPayloads[o-nPayload-2])
				vote.ExtensionSignature = bytes.Repeat([]byte{0x42}, 64)
				desc = append(desc, fmt.Sprintf("%s:nil/p%d", v.v.Name, nilPayloads[o-nPayload-2]))
			default:
				vote.BlockIdFlag = cmtproto.BlockIDFlagCommit
				vote.VoteExtension = payload(i, o)
				vote.ExtensionSignature = signExt(v.v, vote.VoteExtension, h-1, 0)
				desc = append(desc, fmt.Sprintf("%s:commit/p%d", v.v.Name, o))
				// independent reading of the extension
				var re refVoteExt
				if json.Unmarshal(vote.VoteExtension, &re) == nil {
					op := v.v.Val.String()
					if len(re.InitialSignature.SignatureA) > 0 {
						if a, ok := refRecover(re.InitialSignature.SignatureA, re.InitialSignature.SignatureB); ok {
							if _, err := bk.OperatorToEVMAddressMap.Get(f0.Ctx, op); err != nil {
								wantOps = append(wantOps, op)
								wantEvms = append(wantEvms, ethcommon.BytesToAddress(a).Hex())
							}
						}
					}
					if len(re.ValsetSignature.Signature) > 0 {
						wantVsOps = append(wantVsOps, op)
						wantVsTs = append(wantVsTs, int64(re.ValsetSignature.Timestamp))
						wantVsSigs = append(wantVsSigs, hex.EncodeToString(re.ValsetSignature.Signature))
					}
					for _, a := range re.OracleAttestations {
						wantAttOps = append(wantAttOps, op)
						wantSnap = append(wantSnap, a.Snapshot)
						wantAtt = append(wantAtt, a.Attestation)
					}
				}
			}
			ec.Votes = append(ec.Votes, vote)
			lc.Votes = append(lc.Votes, abci.VoteInfo{Validator: vote.Validator, BlockIdFlag: vote.BlockIdFlag})
		}
		ctx := f0.Ctx.WithCometInfo(baseapp.NewBlockInfo(nil, nil, vs[0].cons, lc))
		valid := baseapp.ValidateVoteExtensions(ctx, f0.App.StakingKeeper, h, ChainID, ec) == nil
		rc.Count("executions", 1)
		rc.Count("states", 1)
		if valid {
			rc.Count("valid_commits", 1)
		}
		var txs [][]byte
		panicked := ""
		func() {
			defer func() {
				if r := recover(); r != nil {
					panicked = fmt.Sprint(r)
				}
			}()
			res, err := ph.PrepareProposalHandler(ctx, &abci.RequestPrepareProposal{Height: h, LocalLastCommit: ec})
			if err == nil && res != nil {
				txs = res.Txs
			}
		}()
		rc.Count("transitions", 1)
		if panicked != "" {
			rc.Distinct("recovered_handler_panics", "PrepareProposal: "+NormErr(panicked))
			if valid {
				fail("prepare-panics-on-valid-commit", "PrepareProposalHandler panicked on a valid commit: "+panicked, desc)
			}
			continue
		}
		process := func(t [][]byte) (accepted bool, pan string) {
			defer func() {
				if r := recover(); r != nil {
					accepted, pan = false, fmt.Sprint(r) // baseapp recovers and rejects
				}
			}()
			res, err := ph.ProcessProposalHandler(ctx, &abci.RequestProcessProposal{Height: h, Txs: t})
			return err == nil && res != nil && res.Status == abci.ResponseProcessProposal_ACCEPT, ""
		}
		acc, pan := process(txs)
		rc.Count("transitions", 1)
		if pan != "" {
			rc.Distinct("recovered_handler_panics", "ProcessProposal: "+NormErr(pan))
		}
		if valid && !acc {
			fail("honest-proposal-rejected", fmt.Sprintf("the proposal an honest proposer builds from a valid commit is rejected (panic=%q)", pan), desc)
			continue
		}
		if !valid || !acc || len(txs) == 0 {
			continue
		}
		rc.Count("accepted_proposals", 1)
		// ---- node-local state: executing this block gives the same bridge state on a node that replays it only and on a
		// node whose (one) proposal handler validated another proposal for this height before ----
		{
			replayOnly, _ := ctx.CacheContext()
			_, pre1 := f0.App.VerifHandlerPair()
			var d1 string
			func() {
				defer func() { _ = recover() }()
				if _, err := pre1(replayOnly, &abci.RequestFinalizeBlock{Height: h, Txs: txs}); err == nil {
					d1 = storeDigestCtx(f0, replayOnly, "bridge")
				}
			}()
			if prevAccepted != nil && !bytes.Equal(prevAccepted[0], txs[0]) && d1 != "" {
				ph2, pre2 := f0.App.VerifHandlerPair()
				other, _ := ctx.CacheContext()
				func() {
					defer func() { _ = recover() }()
					if res, err := ph2.ProcessProposalHandler(ctx, &abci.RequestProcessProposal{Height: h, Txs: prevAccepted}); err == nil && res != nil && res.Status == abci.ResponseProcessProposal_ACCEPT {
						if _, err := pre2(other, &abci.RequestFinalizeBlock{Height: h, Txs: txs}); err == nil {
							rc.Count("node_state_pairs_checked", 1)
							if d2 := storeDigestCtx(f0, other, "bridge"); d2 != d1 {
								sig := "voteext|execution-depends-on-earlier-proposal"
								if nodeStateOnly {
									sig = "determinism|node-local-state|proposal-handler"
								}
								rc.Violate(Violation{Oracle: "execution-depends-on-earlier-proposal", Sig: sig, Detail: "the bridge state after PreBlocker differs between a node that only replays the block and a node whose proposal handler validated another proposal for the same height before [world " + cw.name + "]", Scenario: cw.name, Trace: desc, NDev: len(desc)})
							}
						}
					}
				}()
			}
			prevAccepted = txs
		}
		if nodeStateOnly {
			rc.Count("executions", 1)
			continue
		}
		var inj app.VoteExtTx
		if err := json.Unmarshal(txs[0], &inj); err != nil {
			fail("injected-not-json", "accepted proposal's first tx is not the injected JSON", desc)
			continue
		}
		eq := func(a, b interface{}) bool {
			if reflect.ValueOf(a).Len() == 0 && reflect.ValueOf(b).Len() == 0 {
				return true
			}
			return reflect.DeepEqual(a, b)
		}
		if !eq(inj.OpAndEVMAddrs.OperatorAddresses, wantOps) || !eq(inj.OpAndEVMAddrs.EVMAddresses, wantEvms) ||
			!eq(inj.ValsetSigs.OperatorAddresses, wantVsOps) || !eq(inj.ValsetSigs.Timestamps, wantVsTs) || !eq(inj.ValsetSigs.Signatures, wantVsSigs) ||
			!eq(inj.OracleAttestations.OperatorAddresses, wantAttOps) || !eq(inj.OracleAttestations.Snapshots, wantSnap) || !eq(inj.OracleAttestations.Attestations, wantAtt) {
			fail("injected-data-differs-from-extensions", fmt.Sprintf("injected %+v / %+v / ops %v, independent reading of the extensions gives regs %v %v, valset %v %v, att ops %v", inj.OpAndEVMAddrs, inj.ValsetSigs, inj.OracleAttestations.OperatorAddresses, wantOps, wantEvms, wantVsOps, wantVsTs, wantAttOps), desc)
		}
		// ---- single-element mutations must be rejected ----
		mutants := c17Mutations(inj)
		for _, mu := range mutants {
			bz, _ := json.Marshal(mu.tx)
			a2, _ := process(append([][]byte{bz}, txs[1:]...))
			rc.Count("mutations_checked", 1)
			rc.Count("transitions", 1)
			if a2 {
				fail("mutated-proposal-accepted|"+mu.list, "a proposal whose injected "+mu.list+" was mutated ("+mu.kind+") is accepted", desc)
			}
		}
		// ---- PreBlocker writes exactly the accepted data ----
		pf := &World{App: f0.App}
		cc, _ := ctx.CacheContext()
		pf.Ctx = cc
		beforeBridge := storeDumpCtx(f0, cc, "bridge")
		func() {
			defer func() {
				if r := recover(); r != nil {
					fail("preblocker-panics", fmt.Sprintf("PreBlocker panicked on an accepted proposal: %v", r), desc)
				}
			}()
			if _, err := pre(cc, &abci.RequestFinalizeBlock{Height: h, Txs: txs}); err != nil {
				fail("preblocker-error", "PreBlocker failed on an accepted proposal: "+err.Error(), desc)
			}
		}()
		rc.Count("transitions", 1)
		afterBridge := storeDumpCtx(f0, cc, "bridge")
		_ = beforeBridge
		_ = afterBridge
		// EVM registrations
		for i, v := range vs {
			op := v.v.Val.String()
			was, errB := bk.OperatorToEVMAddressMap.Get(f0.Ctx, op)
			now, errA := f0.App.BridgeKeeper.OperatorToEVMAddressMap.Get(cc, op)
			sentOwn := i < len(opts) && opts[i] == 3
			sentForeign := i < len(opts) && opts[i] == 4
			switch {
			case errB == nil && (errA != nil || !bytes.Equal(was.EVMAddress, now.EVMAddress)):
				fail("registration-overwritten", fmt.Sprintf("the registered EVM address of %s changed", v.v.Name), desc)
			case errB != nil && errA == nil:
				rc.Count("evm_registrations", 1)
				if !bytes.Equal(now.EVMAddress, v.v.EVMAddr) {
					cls := "other"
					if sentForeign {
						cls = "replayed-signatures-of-another-validator"
					}
					fail("registered-foreign-address|"+cls, fmt.Sprintf("%s was registered with EVM address %x, its own key is %x", v.v.Name, now.EVMAddress, v.v.EVMAddr), desc)
				} else if !sentOwn {
					fail("registered-without-signatures", fmt.Sprintf("%s was registered although it did not send its initial signatures", v.v.Name), desc)
				}
			case errB != nil && errA != nil && sentOwn:
				fail("registration-lost", fmt.Sprintf("%s sent valid initial signatures but was not registered", v.v.Name), desc)
			}
		}
		// valset signature slots: only the sender's slot may change, and to the sender's bytes
		prevIdxTs, _ := bk.ValidatorCheckpointIdxMap.Get(f0.Ctx, idx.Index-1)
		prevSet, _ := bk.BridgeValsetByTimestampMap.Get(f0.Ctx, prevIdxTs.Timestamp)
		sb, _ := bk.BridgeValsetSignaturesMap.Get(f0.Ctx, cpTs.Timestamp)
		sa, _ := f0.App.BridgeKeeper.BridgeValsetSignaturesMap.Get(cc, cpTs.Timestamp)
		for slot := range sa.Signatures {
			if slot < len(sb.Signatures) && bytes.Equal(sa.Signatures[slot], sb.Signatures[slot]) {
				continue
			}
			// who owns this slot?
			owner := -1
			for i, v := range vs {
				if e, err := f0.App.BridgeKeeper.OperatorToEVMAddressMap.Get(cc, v.v.Val.String()); err == nil && slot < len(prevSet.BridgeValidatorSet) && bytes.Equal(e.EVMAddress, prevSet.BridgeValidatorSet[slot].EthereumAddress) && bytes.Equal(e.EVMAddress, v.v.EVMAddr) {
					owner = i
				}
			}
			ok := false
			if owner >= 0 && owner < len(opts) && (opts[owner] == 6 || opts[owner] == 8) {
				var re refVoteExt
				if json.Unmarshal(payload(owner, opts[owner]), &re) == nil && bytes.Equal(re.ValsetSignature.Signature, sa.Signatures[slot]) {
					ok = true
				}
			}
			rc.Count("valset_slots_written", 1)
			if !ok {
				fail("valset-signature-in-foreign-slot", fmt.Sprintf("signature slot %d of checkpoint %d changed but its owner did not send that signature", slot, cpTs.Timestamp), desc)
			}
		}
		// attestation slots
		ab, _ := bk.SnapshotToAttestationsMap.Get(f0.Ctx, snap)
		aa, _ := f0.App.BridgeKeeper.SnapshotToAttestationsMap.Get(cc, snap)
		sd, _ := bk.AttestSnapshotDataMap.Get(f0.Ctx, snap)
		// the set the array was sized for: the validator set of the checkpoint named in the snapshot
		var sized bridgetypes.BridgeValidatorSet
		_ = bk.ValidatorCheckpointParamsMap.Walk(f0.Ctx, nil, func(ts uint64, pm bridgetypes.ValidatorCheckpointParams) (bool, error) {
			if bytes.Equal(pm.Checkpoint, sd.ValidatorCheckpoint) {
				sized, _ = bk.BridgeValsetByTimestampMap.Get(f0.Ctx, ts)
			}
			return false, nil
		})
		for slot := range aa.Attestations {
			if slot < len(ab.Attestations) && bytes.Equal(aa.Attestations[slot], ab.Attestations[slot]) {
				continue
			}
			rc.Count("attestation_slots_written", 1)
			owner := -1
			for i, v := range vs {
				if slot < len(sized.BridgeValidatorSet) && bytes.Equal(sized.BridgeValidatorSet[slot].EthereumAddress, v.v.EVMAddr) {
					owner = i
				}
			}
			ok := owner >= 0 && owner < len(opts) && (opts[owner] == 9 || opts[owner] == 11)
			if !ok {
				cls := "other"
				if cw.name == "reordered-valset" {
					cls = "indexed-by-current-valset"
				}
				fail("attestation-in-foreign-slot|"+cls, fmt.Sprintf("attestation slot %d of the snapshot (sized for the set at snapshot time, member %d) was written by another validator's attestation", slot, owner), desc)
			}
		}
		if code%257 == 0 {
			rc.Sample(map[string]interface{}{"world": cw.name, "commit": desc, "valid": valid, "accepted": acc, "mutations": len(mutants)})
		}
	}
	_ = collections.ErrNotFound
}

func storeDumpCtx(w *World, ctx sdk.Context, name string) int {
	n := 0
	it := ctx.KVStore(w.App.GetKey(name)).Iterator(nil, nil)
	defer it.Close()
	for ; it.Valid(); it.Next() {
		n++
	}
	return n
}

// storeDigestCtx hashes every key and value of one store as seen through ctx.
func storeDigestCtx(w *World, ctx sdk.Context, name string) string {
	h := sha256.New()
	it := ctx.KVStore(w.App.GetKey(name)).Iterator(nil, nil)
	defer it.Close()
	for ; it.Valid(); it.Next() {
		h.Write(it.Key())
		h.Write([]byte{0})
		h.Write(it.Value())
		h.Write([]byte{1})
	}
	return hex.EncodeToString(h.Sum(nil))
}

type c17Mutant struct {
	list, kind string
	tx         app.VoteExtTx
}

// c17Mutations returns every single-element change / delete / insert / swap in each injected list.
func c17Mutations(inj app.VoteExtTx) []c17Mutant {
	var out []c17Mutant
	cloneTx := func() app.VoteExtTx {
		bz, _ := json.Marshal(inj)
		var c app.VoteExtTx
		json.Unmarshal(bz, &c)
		return c
	}
	mutStr := func(list string, get func(*app.VoteExtTx) *[]string, alt string) {
		l := *get(&inj)
		for i := range l {
			c := cloneTx()
			p := get(&c)
			(*p)[i] = alt
			if alt != l[i] {
				out = append(out, c17Mutant{list, "change", c})
			}
			c = cloneTx()
			p = get(&c)
			*p = append((*p)[:i:i], (*p)[i+1:]...)
			out = append(out, c17Mutant{list, "delete", c})
			if i+1 < len(l) && l[i] != l[i+1] {
				c = cloneTx()
				p = get(&c)
				(*p)[i], (*p)[i+1] = (*p)[i+1], (*p)[i]
				out = append(out, c17Mutant{list, "swap", c})
			}
		}
		c := cloneTx()
		p := get(&c)
		*p = append(*p, alt)
		out = append(out, c17Mutant{list, "insert", c})
	}
	mutStr("registration operators", func(t *app.VoteExtTx) *[]string { return &t.OpAndEVMAddrs.OperatorAddresses }, "tellorvaloper1qqqqqqqqqqqqqqqqqqqqqqqqqqqqqqqqnl4c0k")
	mutStr("registration addresses", func(t *app.VoteExtTx) *[]string { return &t.OpAndEVMAddrs.EVMAddresses }, "0x00000000000000000000000000000000000000aA")
	mutStr("valset-signature operators", func(t *app.VoteExtTx) *[]string { return &t.ValsetSigs.OperatorAddresses }, "tellorvaloper1qqqqqqqqqqqqqqqqqqqqqqqqqqqqqqqqnl4c0k")
	mutStr("valset signatures", func(t *app.VoteExtTx) *[]string { return &t.ValsetSigs.Signatures }, "00ff")
	mutStr("attestation operators", func(t *app.VoteExtTx) *[]string { return &t.OracleAttestations.OperatorAddresses }, "tellorvaloper1qqqqqqqqqqqqqqqqqqqqqqqqqqqqqqqqnl4c0k")
	// timestamps
	for i := range inj.ValsetSigs.Timestamps {
		c := cloneTx()
		c.ValsetSigs.Timestamps[i]++
		out = append(out, c17Mutant{"valset timestamps", "change", c})
		c = cloneTx()
		c.ValsetSigs.Timestamps = append(c.ValsetSigs.Timestamps[:i:i], c.ValsetSigs.Timestamps[i+1:]...)
		out = append(out, c17Mutant{"valset timestamps", "delete", c})
	}
	{
		c := cloneTx()
		c.ValsetSigs.Timestamps = append(c.ValsetSigs.Timestamps, 7)
		out = append(out, c17Mutant{"valset timestamps", "insert", c})
	}
	mutBytes := func(list string, get func(*app.VoteExtTx) *[][]byte) {
		l := *get(&inj)
		for i := range l {
			c := cloneTx()
			p := get(&c)
			(*p)[i] = append(append([]byte(nil), l[i]...), 0x01)
			out = append(out, c17Mutant{list, "change", c})
			c = cloneTx()
			p = get(&c)
			*p = append((*p)[:i:i], (*p)[i+1:]...)
			out = append(out, c17Mutant{list, "delete", c})
			if i+1 < len(l) && !bytes.Equal(l[i], l[i+1]) {
				c = cloneTx()
				p = get(&c)
				(*p)[i], (*p)[i+1] = (*p)[i+1], (*p)[i]
				out = append(out, c17Mutant{list, "swap", c})
			}
		}
		c := cloneTx()
		p := get(&c)
		*p = append(*p, []byte{0xab})
		out = append(out, c17Mutant{list, "insert", c})
	}
	mutBytes("attestations", func(t *app.VoteExtTx) *[][]byte { return &t.OracleAttestations.Attestations })
	mutBytes("attestation snapshots", func(t *app.VoteExtTx) *[][]byte { return &t.OracleAttestations.Snapshots })
	return out
}
