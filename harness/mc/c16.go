//go:build verif

package mc

import (
	"bytes"
	"crypto/sha256"
	"encoding/hex"
	"encoding/json"
	"fmt"
	"math/big"
	"sort"
	"time"

	abci "github.com/cometbft/cometbft/abci/types"
	ethcrypto "github.com/ethereum/go-ethereum/crypto"
	"github.com/tellor-io/layer/app"
	bridgetypes "github.com/tellor-io/layer/x/bridge/types"

	"github.com/cosmos/cosmos-sdk/crypto/keys/secp256k1"
	sdk "github.com/cosmos/cosmos-sdk/types"
)

func init() {
	Register("C16", &CheckInfo{
		Fn: checkC16, Level: "model_checking",
		Rule: "valset monitor at every EndBlock: the stored bridge validator set == {bonded validators with a registered EVM address and non-zero power} sorted by (power desc, address asc); a new checkpoint is recorded iff none exists, or sum|power changes|/previous total >= 5% (exact rationals), or the last one is older than two weeks (ages within the code's 1s slack are not in the gap alphabet); timestamps strictly increase, indexes contiguous, stored hash/threshold/checkpoint recomputed with the contract-derived encoder; signature slots sized to the previous set; for every new checkpoint all 2^n signer subsets of the previous set in both submission orders are written through the real SetBridgeValsetSignature path (odd subsets through the real PreBlocker with an injected vote-extension tx) with real secp256k1 signatures and a Go transcription of BlobstreamO.updateValidatorSet/_checkValidatorSignatures must accept whenever the signers hold more than 2/3 of the previous set's power; evaluated on an exhaustive DFS depth 4 (quick) / 6 (thorough) over {delegate 490/500 TRB to V1, 250 to V3, self-undelegate 490/500 of V2, late EVM registration of V3, Block 1s/12h/1w/2w-2s/2w+1ms} in three worlds (5000/3000/2000, equal powers, validator cap 2 with a validator entering/leaving)",
		QuickBudget: 10 * time.Minute, ThoroughBudget: 15 * time.Minute,
	})
}

type ValsetMonitor struct{ model *SolModel }

type valsetPre struct {
	idx     int64 // -1 none
	lastTs  uint64
	lastSet []*bridgetypes.BridgeValidator
}

func (ValsetMonitor) Pre(w *World) interface{} {
	p := &valsetPre{idx: -1}
	if i, err := w.App.BridgeKeeper.LatestCheckpointIdx.Get(w.Ctx); err == nil {
		p.idx = int64(i.Index)
		if ts, err := w.App.BridgeKeeper.ValidatorCheckpointIdxMap.Get(w.Ctx, i.Index); err == nil {
			p.lastTs = ts.Timestamp
			if vs, err := w.App.BridgeKeeper.BridgeValsetByTimestampMap.Get(w.Ctx, ts.Timestamp); err == nil {
				p.lastSet = vs.BridgeValidatorSet
			}
		}
	}
	return p
}

// refValset recomputes the expected bridge validator set from staking and the EVM registry.
func refValset(w *World) []*bridgetypes.BridgeValidator {
	var out []*bridgetypes.BridgeValidator
	vals, _ := w.App.StakingKeeper.GetAllValidators(w.Ctx)
	for _, v := range vals {
		if !v.IsBonded() {
			continue
		}
		p := v.Tokens.QuoRaw(TRB)
		if !p.IsPositive() {
			continue
		}
		e, err := w.App.BridgeKeeper.OperatorToEVMAddressMap.Get(w.Ctx, v.OperatorAddress)
		if err != nil {
			continue
		}
		out = append(out, &bridgetypes.BridgeValidator{EthereumAddress: e.EVMAddress, Power: p.Uint64()})
	}
	sort.SliceStable(out, func(i, j int) bool {
		if out[i].Power != out[j].Power {
			return out[i].Power > out[j].Power
		}
		return bytes.Compare(out[i].EthereumAddress, out[j].EthereumAddress) < 0
	})
	return out
}

func sameSet(a, b []*bridgetypes.BridgeValidator) bool {
	if len(a) != len(b) {
		return false
	}
	for i := range a {
		if a[i].Power != b[i].Power || !bytes.Equal(a[i].EthereumAddress, b[i].EthereumAddress) {
			return false
		}
	}
	return true
}

func setString(s []*bridgetypes.BridgeValidator) string {
	var l []string
	for _, v := range s {
		l = append(l, fmt.Sprintf("%x:%d", v.EthereumAddress[:3], v.Power))
	}
	return fmt.Sprint(l)
}

// contractState mirrors BlobstreamO's storage.
type contractState struct {
	checkpoint []byte
	threshold  uint64
	ts         uint64
}

type evmSig struct {
	v    byte
	r, s []byte
	nil_ bool
}

// contractUpdate is a transcription of updateValidatorSet + _checkValidatorSignatures (staleness clause excluded).
func (m *SolModel) contractUpdate(c *contractState, newHash []byte, newThr, newTs uint64, cur []*bridgetypes.BridgeValidator, sigs []evmSig) error {
	if len(cur) != len(sigs) {
		return fmt.Errorf("MalformedCurrentValidatorSet")
	}
	if newTs < c.ts {
		return fmt.Errorf("ValidatorTimestampMustIncrease")
	}
	if newThr == 0 {
		return fmt.Errorf("InvalidPowerThreshold")
	}
	cp := func(thr, ts uint64, h []byte) []byte {
		return RefKeccak256(AbiEncode(m.bind(m.CheckpointArgs, map[string]AbiVal{"_powerThreshold": {Int: u64(thr)}, "_validatorTimestamp": {Int: u64(ts)}, "_validatorSetHash": {Bytes: h}})...))
	}
	if !bytes.Equal(cp(c.threshold, c.ts, RefKeccak256(AbiEncode(m.valsetVal(cur)))), c.checkpoint) {
		return fmt.Errorf("SuppliedValidatorSetInvalid")
	}
	nc := cp(newThr, newTs, newHash)
	digest := sha256.Sum256(nc)
	var cum uint64
	for i, v := range cur {
		if sigs[i].nil_ {
			continue
		}
		pub, err := ethcrypto.SigToPub(digest[:], append(append(append([]byte(nil), sigs[i].r...), sigs[i].s...), sigs[i].v))
		if err != nil || !bytes.Equal(ethcrypto.PubkeyToAddress(*pub).Bytes(), v.EthereumAddress) {
			return fmt.Errorf("InvalidSignature at slot %d", i)
		}
		cum += v.Power
		if cum >= c.threshold {
			break
		}
	}
	if cum < c.threshold {
		return fmt.Errorf("InsufficientVotingPower")
	}
	c.checkpoint, c.threshold, c.ts = nc, newThr, newTs
	return nil
}

func (m ValsetMonitor) Post(e *Explorer, before, w *World, pre interface{}, ev *Event, out Outcome) {
	if out.Kind != "block" || before.Height() < 2 {
		return
	}
	p := pre.(*valsetPre)
	bk := w.App.BridgeKeeper
	fail := func(oracle, detail string) {
		e.Violate(w, oracle, "valset|"+oracle, fmt.Sprintf("%s (EndBlock of height %d)", detail, before.Height()))
	}
	// state right after EndBlock == state of w before BeginBlock changes nothing bridge-related
	idxNow := int64(-1)
	if i, err := bk.LatestCheckpointIdx.Get(w.Ctx); err == nil {
		idxNow = int64(i.Index)
	}
	// reference set computed on the post-state (staking's EndBlocker ran before the bridge's in the same block;
	// BeginBlock of the next block does not change validator powers)
	want := refValset(w)
	stored, err := bk.BridgeValset.Get(w.Ctx)
	created := idxNow != p.idx
	endTime := before.Time()
	// expected creation
	expectNew := false
	reason := ""
	switch {
	case p.idx < 0:
		expectNew, reason = true, "first"
	default:
		prevTot, delta := new(big.Int), new(big.Int)
		old := map[string]uint64{}
		for _, v := range p.lastSet {
			old[string(v.EthereumAddress)] = v.Power
			prevTot.Add(prevTot, new(big.Int).SetUint64(v.Power))
		}
		seen := map[string]bool{}
		for _, v := range want {
			k := string(v.EthereumAddress)
			seen[k] = true
			d := new(big.Int).Sub(new(big.Int).SetUint64(v.Power), new(big.Int).SetUint64(old[k]))
			delta.Add(delta, d.Abs(d))
		}
		for k, pw := range old {
			if !seen[k] {
				delta.Add(delta, new(big.Int).SetUint64(pw))
			}
		}
		if prevTot.Sign() > 0 && new(big.Int).Mul(delta, big.NewInt(20)).Cmp(prevTot) >= 0 {
			expectNew, reason = true, "power shift >= 5%"
		}
		if age := endTime.Sub(time.UnixMilli(int64(p.lastTs))); age > 14*24*time.Hour {
			expectNew, reason = true, "older than two weeks"
		}
	}
	if len(want) == 0 {
		return // environment assumption violated (no registered bonded validator): the end-blocker would have halted
	}
	if created != expectNew {
		if expectNew {
			fail("checkpoint-missing", fmt.Sprintf("no new checkpoint although %s (last %d, set %s -> %s)", reason, p.lastTs, setString(p.lastSet), setString(want)))
		} else {
			fail("checkpoint-unexpected", fmt.Sprintf("a new checkpoint was recorded although the set moved < 5%% and the last one is younger than two weeks (%s -> %s)", setString(p.lastSet), setString(want)))
		}
		return
	}
	if !created {
		return
	}
	e.RC.Count("checkpoints_created", 1)
	e.RC.Distinct("checkpoint_reasons", reason)
	if err != nil || !sameSet(stored.BridgeValidatorSet, want) {
		fail("valset-content", fmt.Sprintf("stored validator set %s, expected %s", setString(stored.BridgeValidatorSet), setString(want)))
		return
	}
	if idxNow != p.idx+1 {
		fail("index-gap", fmt.Sprintf("checkpoint index moved %d -> %d", p.idx, idxNow))
	}
	tsRec, _ := bk.ValidatorCheckpointIdxMap.Get(w.Ctx, uint64(idxNow))
	ts := tsRec.Timestamp
	if ts != uint64(endTime.UnixMilli()) || (p.idx >= 0 && ts <= p.lastTs) {
		fail("timestamp-order", fmt.Sprintf("checkpoint timestamp %d (block time %d) after previous %d", ts, endTime.UnixMilli(), p.lastTs))
	}
	if back, err := bk.ValsetTimestampToIdxMap.Get(w.Ctx, ts); err != nil || int64(back.Index) != idxNow {
		fail("index-maps", "timestamp->index map disagrees with index->timestamp map")
	}
	params, err := bk.ValidatorCheckpointParamsMap.Get(w.Ctx, ts)
	if err != nil {
		fail("params-missing", "no checkpoint params stored")
		return
	}
	byTs, _ := bk.BridgeValsetByTimestampMap.Get(w.Ctx, ts)
	if !sameSet(byTs.BridgeValidatorSet, want) {
		fail("valset-by-timestamp", "validator set stored under the checkpoint timestamp differs from the current set")
	}
	tot := new(big.Int)
	for _, v := range want {
		tot.Add(tot, new(big.Int).SetUint64(v.Power))
	}
	wantThr := new(big.Int).Div(new(big.Int).Mul(tot, big.NewInt(2)), big.NewInt(3)).Uint64()
	wantHash := RefKeccak256(AbiEncode(m.model.valsetVal(want)))
	wantCp := RefKeccak256(AbiEncode(m.model.bind(m.model.CheckpointArgs, map[string]AbiVal{"_powerThreshold": {Int: u64(wantThr)}, "_validatorTimestamp": {Int: u64(ts)}, "_validatorSetHash": {Bytes: wantHash}})...))
	cur, _ := bk.ValidatorCheckpoint.Get(w.Ctx)
	if params.PowerThreshold != wantThr || !bytes.Equal(params.ValsetHash, wantHash) || !bytes.Equal(params.Checkpoint, wantCp) || !bytes.Equal(cur.Checkpoint, wantCp) || params.Timestamp != ts {
		fail("checkpoint-consistency", fmt.Sprintf("stored threshold %d / hash %x / checkpoint %x, recomputed %d / %x / %x", params.PowerThreshold, params.ValsetHash[:4], params.Checkpoint[:4], wantThr, wantHash[:4], wantCp[:4]))
		return
	}
	slots, err := bk.BridgeValsetSignaturesMap.Get(w.Ctx, ts)
	wantSlots := len(want)
	if p.idx >= 0 {
		wantSlots = len(p.lastSet)
	}
	if err != nil || len(slots.Signatures) != wantSlots {
		fail("signature-slots", fmt.Sprintf("%d signature slots for a previous set of %d members", len(slots.Signatures), wantSlots))
		return
	}
	if p.idx < 0 {
		return
	}
	// ---- light-client step: every signer subset, both orders ----
	prevParams, err := bk.ValidatorCheckpointParamsMap.Get(w.Ctx, p.lastTs)
	if err != nil {
		return
	}
	type signer struct {
		v    *Validator
		slot int
	}
	var members []signer
	for i, bv := range p.lastSet {
		for _, v := range w.Vals {
			if bytes.Equal(v.EVMAddr, bv.EthereumAddress) {
				members = append(members, signer{v, i})
			}
		}
	}
	if len(members) != len(p.lastSet) || len(members) > 4 {
		return
	}
	n := len(members)
	prevTot := uint64(0)
	for _, bv := range p.lastSet {
		prevTot += bv.Power
	}
	for mask := 0; mask < 1<<n; mask++ {
		for order := 0; order < 2; order++ {
			f := w.Fork()
			var idxs []int
			for i := 0; i < n; i++ {
				if mask&(1<<i) != 0 {
					idxs = append(idxs, i)
				}
			}
			if order == 1 {
				for i, j := 0, len(idxs)-1; i < j; i, j = i+1, j-1 {
					idxs[i], idxs[j] = idxs[j], idxs[i]
				}
			}
			signedPower := uint64(0)
			var ops, sigsHex []string
			for _, i := range idxs {
				key := secp256k1.PrivKey{Key: members[i].v.EVMPriv}
				sig, _ := key.Sign(params.Checkpoint)
				ops = append(ops, members[i].v.Val.String())
				sigsHex = append(sigsHex, hex.EncodeToString(sig))
				signedPower += p.lastSet[members[i].slot].Power
			}
			if mask%2 == 1 && len(ops) > 0 {
				// through the real PreBlocker with an injected vote-extension transaction
				tsl := make([]int64, len(ops))
				for i := range tsl {
					tsl[i] = int64(ts)
				}
				tx := app.VoteExtTx{BlockHeight: f.Height(), ValsetSigs: app.ValsetSignatures{OperatorAddresses: ops, Timestamps: tsl, Signatures: sigsHex}}
				bz, _ := json.Marshal(tx)
				if _, err := f.App.VerifPreBlocker()(f.Ctx, &abci.RequestFinalizeBlock{Height: f.Height(), Txs: [][]byte{bz}}); err != nil {
					fail("preblocker-error", "PreBlocker failed on injected valset signatures: "+err.Error())
					continue
				}
			} else {
				for i := range ops {
					if err := f.App.BridgeKeeper.SetBridgeValsetSignature(f.Ctx, ops[i], ts, sigsHex[i]); err != nil {
						fail("set-signature-error", "SetBridgeValsetSignature failed: "+err.Error())
					}
				}
			}
			st, _ := f.App.BridgeKeeper.BridgeValsetSignaturesMap.Get(f.Ctx, ts)
			sigs := make([]evmSig, len(st.Signatures))
			digest := sha256.Sum256(params.Checkpoint)
			for i, sb := range st.Signatures {
				if len(sb) == 0 {
					sigs[i] = evmSig{nil_: true}
					continue
				}
				sigs[i] = evmSig{r: sb[:32], s: sb[32:64]}
				for _, vv := range []byte{0, 1} { // the relayer derives v
					if pub, err := ethcrypto.SigToPub(digest[:], append(append([]byte(nil), sb[:64]...), vv)); err == nil && i < len(p.lastSet) && bytes.Equal(ethcrypto.PubkeyToAddress(*pub).Bytes(), p.lastSet[i].EthereumAddress) {
						sigs[i].v = vv
					}
				}
			}
			c := &contractState{checkpoint: prevParams.Checkpoint, threshold: prevParams.PowerThreshold, ts: prevParams.Timestamp}
			err := m.model.contractUpdate(c, params.ValsetHash, params.PowerThreshold, params.Timestamp, p.lastSet, sigs)
			e.RC.Count("contract_steps_checked", 1)
			if signedPower*3 > prevTot*2 && err != nil {
				fail("light-client-rejects", fmt.Sprintf("signers %v hold %d of %d (> 2/3) of the previous set but the contract's update rule rejects: %v", ops, signedPower, prevTot, err))
			}
			if err == nil {
				e.RC.Count("contract_steps_accepted", 1)
			}
		}
	}
}

func checkC16(rc *RunCtx) {
	model := LoadSolModel(RepoDir() + "/evm/contracts")
	mons := []Monitor{ValsetMonitor{model: model}}
	depth := 4
	if !rc.Quick() {
		depth = 6
	}
	worlds := []struct {
		name string
		cfg  Config
	}{
		{"valset-dfs", Config{}},
		{"valset-dfs-equal", Config{ValStakes: []int64{3000, 3000, 3000}}},
		{"valset-dfs-maxval2", Config{ValStakes: []int64{5000, 3000, 2900}, MaxValidators: 2}},
		{"valset-dfs-late-evm", Config{RegisterEVM: []bool{true, true, false}}},
		// the first checkpoint records 5000/3000/2000: a delegation of 500 (after a new 12 h period) is a shift of exactly 5%
		{"valset-dfs-exact5", Config{ValStakes: []int64{4840, 2920, 1970}}},
	}
	gaps := []time.Duration{time.Second, 12 * time.Hour, 7 * 24 * time.Hour, 14*24*time.Hour - 2*time.Second, 14*24*time.Hour + time.Millisecond}
	for _, wd := range worlds {
		if rc.Replay != nil && rc.Replay.Scenario != wd.name {
			continue
		}
		w := NewWorld(wd.cfg)
		c := StdSetup(w, false)
		w.Trace = nil
		V := w.Vals
		evs := []Event{
			ev1("Delegate(Payer,V1,490)", "delegate", func(w *World) sdkMsg { return MsgDelegate(c.Payer.Acc, V[0], 490*TRB) }),
			ev1("Delegate(Payer,V1,500)", "delegate", func(w *World) sdkMsg { return MsgDelegate(c.Payer.Acc, V[0], 500*TRB) }),
			ev1("Delegate(Tipper,V3,250)", "delegate", func(w *World) sdkMsg { return MsgDelegate(c.Tipper.Acc, V[2], 250*TRB) }),
			ev1("Undelegate(V2,self,490)", "undelegate", func(w *World) sdkMsg { return MsgUndelegate(V[1].Acc, V[1], 490*TRB) }),
			ev1("Undelegate(V2,self,500)", "undelegate", func(w *World) sdkMsg { return MsgUndelegate(V[1].Acc, V[1], 500*TRB) }),
			{Label: "RegisterEVM(V3)", Tag: "env", Apply: func(w *World) Outcome {
				if _, err := w.App.BridgeKeeper.OperatorToEVMAddressMap.Get(w.Ctx, V[2].Val.String()); err == nil {
					return Outcome{Kind: "tx-rej", Err: "already registered"}
				}
				if err := w.App.BridgeKeeper.SetEVMAddressByOperator(w.Ctx, V[2].Val.String(), V[2].EVMAddr); err != nil {
					return Outcome{Kind: "tx-rej", Err: err.Error()}
				}
				return Outcome{Kind: "env"}
			}},
		}
		alpha := func(w *World) []Event {
			out := append([]Event(nil), evs...)
			for _, g := range gaps {
				out = append(out, BlockEv(g))
			}
			return out
		}
		e := &Explorer{RC: rc, Scenario: wd.name, Monitors: mons, Horizon: []time.Duration{time.Second, time.Second}}
		if rc.Replay != nil {
			e.ReplayTrace(w, rc.Replay.Trace, func(w *World, l string) (Event, bool) {
				for _, ev := range alpha(w) {
					if ev.Label == l {
						return ev, true
					}
				}
				return Event{}, false
			})
			return
		}
		for _, ev := range alpha(w) {
			n, out := e.Step(w, ev)
			if out.Kind == "tx-rej" || out.Kind == "halt" {
				continue
			}
			for _, ev2 := range alpha(n) {
				if !rc.Mine() {
					continue
				}
				n2, out2 := e.Step(n, ev2)
				if out2.Kind == "tx-rej" || out2.Kind == "halt" {
					continue
				}
				e.DFS(n2, alpha, depth-2)
			}
		}
		rc.Sample(map[string]interface{}{"scenario": wd.name, "stakes": wd.cfg.ValStakes, "depth": depth, "alphabet": labels(alpha(w))})
	}
	_ = sdk.AccAddress{}
}
