//go:build verif

package mc

import (
	"crypto/sha256"
	"encoding/hex"
	"fmt"
	"sort"
	"strings"
	"time"

	"github.com/spf13/viper"
	"github.com/tellor-io/layer/zzverif/zzseam"
)

func init() {
	Register("C01", &CheckInfo{
		Fn: checkC01, Level: "model_checking",
		Rule: "differential replay of whole histories on the real app built from sources rewritten through the map-order/clock seam (every range over a map and every time.Now in x/, app/, lib/, utils/, types/; site list recomputed from the current tree): histories = shared skeletons (without the two 2 000-block ones) + mode-tie, multi-reward, equal-power-reward and three-way-mode-tie skeletons with <=k deviations (quick: k=0 over all, k=1 over the order-sensitive sub-alphabet around the multi-reward, equal-power-reward and three-way-mode-tie skeletons, first two dynamic occurrences per seam site and skeleton history, the first in deviated histories; thorough: k=1 full alphabet, every occurrence); for each history the reference run (sorted key order) is compared with one re-execution per dynamic map-range occurrence (>=2 keys) x every alternative key order (all permutations up to 4 keys, else reverse+rotations), with an adversarial wall clock, with a different node configuration (AppOptions/viper) and with a plain second run; oracle: identical per-block digests (all store key/values + all events in order) and identical tx accept/reject vectors",
		Assume:      []string{"map iteration inside cosmos-sdk/cometbft/go-ethereum is not seamed (trusted)", "gas is not part of the digest", "the consensus state machine starts no goroutines (the go statements found by the rewriter are listed in evidence: daemon start-up only)"},
		QuickBudget: 10 * time.Minute, ThoroughBudget: 15 * time.Minute,
	})
}

type occInfo struct {
	site string
	n    int
}

type histResult struct {
	digests []string
	accepts []string
	occs    []occInfo
	halt    string
}

// c01Skeletons adds the two order-sensitive skeletons of DESIGN §C01.
func c01Skeletons() []Skeleton {
	sk := []Skeleton{
		// R1 and R2 carry equal power: a two-way tie at the top of a weighted-mode query
		{Name: "mode-tie", MintOn: true, Labels: []string{
			"Tip(modeq,50)", "Submit(R1,modeq,std)", "Submit(R2,modeq,std200)", b1, b1, b1, b1,
			"Tip(modeq2,777)", "Submit(R1,modeq2,std)", b1, b1, b1,
		}},
		{Name: "multi-reward", MintOn: true, Labels: []string{
			"Tip(cyc,1000)", "Submit(R1,cyc,std)", "Submit(R2,cyc,std200)", "Submit(RV1,cyc,7)", "Tip(modeq,50)", "Submit(R1,modeq,std)", "Submit(R2,modeq,std200)", b1, b1, b1, b1,
		}},
	}
	// two reporters tie for the highest power and a third makes the pro-rata split inexact: any ordering keyed on power
	// (or on anything else that ties) then falls back on the order the map delivered
	sk = append(sk, Skeleton{Name: "equal-power-reward", MintOn: true, Cfg: Config{ValStakes: []int64{3000, 3000, 2000}}, Labels: []string{
		"Tip(cyc,1000)", "Submit(R1,cyc,std)", "Submit(RV1,cyc,7)", "Submit(RV2,cyc,7)", b1, b1, b1, b1,
		"Tip(modeq,50)", "Submit(RV1,modeq,7)", "Submit(RV2,modeq,7)", "Submit(R2,modeq,std200)", b1, b1, b1,
	}})
	// three reporters of equal power report three different values: a three-way tie at the top of a weighted-mode query
	// (two-way ties cannot tell a comparison against the running winner from one against the first winner)
	sk = append(sk, Skeleton{Name: "three-way-mode-tie", MintOn: true, Cfg: Config{ValStakes: []int64{3000, 3000, 3000}}, Labels: []string{
		"Tip(modeq,50)", "Submit(RV1,modeq,8)", "Submit(RV2,modeq,9)", "Submit(RV3,modeq,7)", b1, b1, b1,
		"Tip(modeq,50)", "Submit(RV3,modeq,8)", "Submit(RV1,modeq,9)", "Submit(RV2,modeq,7)", "Submit(R1,modeq,std)", b1, b1, b1,
	}})
	// the bridge validator set shifts by exactly the 5% checkpoint threshold, spread over all three validators: whatever
	// is accumulated over the per-validator changes decides a threshold comparison
	// (stakes chosen so that the first checkpoint, taken after the set-up, records 5000/3000/2000 = 10 000; a new 12 h stake-change
	// period, then +300/+150/+50 = exactly 5% in one block)
	sk = append(sk, Skeleton{Name: "valset-exact-threshold", MintOn: false, Cfg: Config{ValStakes: []int64{4840, 2920, 1970}}, Labels: []string{
		"Block(12h0m0s)", b1, "Delegate(Payer,V1,300)", "Delegate(Tipper,V2,150)", "Delegate(Payer,V3,50)", b1, b1, b1,
	}})
	for _, s := range Skeletons() {
		if s.Name == "bridge" || s.Name == "deposit-closing" {
			continue // 2 000-block set-up per re-execution; the bridge paths are covered by "round-maxval2" valset changes
		}
		sk = append(sk, s)
	}
	return sk
}

func c01Alphabet(c *Cast) func(w *World) []Event {
	full := FullAlphabet(c)
	return func(w *World) []Event {
		evs := full(w)
		evs = append(evs,
			ev1("Submit(RV1,modeq,7)", "submit-mode/tie", func(w *World) sdkMsg { return MsgSubmit(c.RV1.Acc, c.ModeQ, U256(7)) }),
			ev1("Submit(RV2,modeq,7)", "submit-mode/tie", func(w *World) sdkMsg { return MsgSubmit(c.RV2.Acc, c.ModeQ, U256(7)) }),
			ev1("Submit(RV1,cyc,7)", "submit/third", func(w *World) sdkMsg {
				if q := w.CycleQuery(); q != nil {
					return MsgSubmit(c.RV1.Acc, q, U256(7))
				}
				return nil
			}),
			ev1("Submit(RV2,cyc,7)", "submit/third", func(w *World) sdkMsg {
				if q := w.CycleQuery(); q != nil {
					return MsgSubmit(c.RV2.Acc, q, U256(7))
				}
				return nil
			}),
			ev1("Submit(RV1,modeq,8)", "submit-mode/tie3", func(w *World) sdkMsg { return MsgSubmit(c.RV1.Acc, c.ModeQ, U256(8)) }),
			ev1("Submit(RV1,modeq,9)", "submit-mode/tie3", func(w *World) sdkMsg { return MsgSubmit(c.RV1.Acc, c.ModeQ, U256(9)) }),
			ev1("Submit(RV2,modeq,9)", "submit-mode/tie3", func(w *World) sdkMsg { return MsgSubmit(c.RV2.Acc, c.ModeQ, U256(9)) }),
			ev1("Submit(RV3,modeq,7)", "submit-mode/tie3", func(w *World) sdkMsg {
				if c.RV3 == nil {
					return nil
				}
				return MsgSubmit(c.RV3.Acc, c.ModeQ, U256(7))
			}),
			ev1("Submit(RV3,modeq,8)", "submit-mode/tie3", func(w *World) sdkMsg {
				if c.RV3 == nil {
					return nil
				}
				return MsgSubmit(c.RV3.Acc, c.ModeQ, U256(8))
			}),
			ev1("Delegate(Payer,V1,300)", "delegate/threshold", func(w *World) sdkMsg { return MsgDelegate(c.Payer.Acc, w.Vals[0], 300*TRB) }),
			ev1("Delegate(Tipper,V2,150)", "delegate/threshold", func(w *World) sdkMsg { return MsgDelegate(c.Tipper.Acc, w.Vals[1], 150*TRB) }),
			ev1("Delegate(Payer,V3,50)", "delegate/threshold", func(w *World) sdkMsg { return MsgDelegate(c.Payer.Acc, w.Vals[2], 50*TRB) }),
			ev1("Submit(R1,modeq2,std)", "submit-mode/std", func(w *World) sdkMsg { return MsgSubmit(c.R1.Acc, c.ModeQ2, U256(100)) }),
		)
		return evs
	}
}

// runHistory executes one history from a fresh genesis.
func runHistory(s Skeleton, labels []string, ctl zzseam.Controller, clock func() time.Time, cfgVariant bool) histResult {
	cfg := s.Cfg
	if cfgVariant {
		cfg.ExtraAppOptions = map[string]interface{}{"minimum-gas-prices": "7loya", "pruning": "everything", "inv-check-period": 3,
			"price-daemon-enabled": false, "telemetry.enabled": false, "iavl-cache-size": 11}
		viper.Set("key-name", "someothernode")
		viper.Set("keyring-backend", "test")
		defer viper.Set("key-name", "")
	}
	w := NewWorld(cfg)
	c := StdSetup(w, s.MintOn)
	if s.Deep != nil {
		s.Deep(w, c)
	}
	alpha := WithBlocks(c01Alphabet(c))
	var res histResult
	zzseam.Clock = clock
	zzseam.Install(func(site string, occ, n int) []int {
		if occ == len(res.occs) {
			res.occs = append(res.occs, occInfo{site, n})
		}
		if ctl != nil {
			return ctl(site, occ, n)
		}
		return nil
	})
	defer func() { zzseam.Install(nil); zzseam.Clock = nil }()
	resolve := Resolver(nil, alpha)
	for _, l := range labels {
		ev, ok := resolve(w, l)
		if !ok {
			panic("C01: cannot resolve " + l)
		}
		out := ev.Apply(w)
		switch out.Kind {
		case "tx-ok", "tx-rej":
			res.accepts = append(res.accepts, out.Kind)
		case "halt":
			res.halt = out.Err
			return res
		case "block":
			h := sha256.New()
			st := w.StateHash()
			h.Write(st[:])
			for _, e := range w.TakeEvents() {
				h.Write([]byte(e.Type))
				for _, a := range e.Attributes {
					h.Write([]byte(a.Key))
					h.Write([]byte{0})
					h.Write([]byte(a.Value))
					h.Write([]byte{1})
				}
			}
			res.digests = append(res.digests, hex.EncodeToString(h.Sum(nil)[:8]))
		}
	}
	return res
}

func altOrders(n int) [][]int {
	if n <= 4 {
		p := permutations(n)
		return p[1:] // skip identity
	}
	var out [][]int
	rev := make([]int, n)
	for i := range rev {
		rev[i] = n - 1 - i
	}
	out = append(out, rev)
	for r := 1; r < n; r++ {
		rot := make([]int, n)
		for i := range rot {
			rot[i] = (i + r) % n
		}
		out = append(out, rot)
	}
	return out
}

func firstDiff(a, b histResult) string {
	for i := range a.digests {
		if i >= len(b.digests) {
			return fmt.Sprintf("run B stopped after %d blocks (%s)", len(b.digests), b.halt)
		}
		if a.digests[i] != b.digests[i] {
			return fmt.Sprintf("block #%d digest %s vs %s", i+1, a.digests[i], b.digests[i])
		}
	}
	if strings.Join(a.accepts, ",") != strings.Join(b.accepts, ",") {
		return "tx accept/reject vectors differ"
	}
	if len(a.digests) != len(b.digests) || a.halt != b.halt {
		return fmt.Sprintf("halt differs: %q vs %q", a.halt, b.halt)
	}
	return ""
}

func checkC01(rc *RunCtx) {
	// node-local state of the proposal handler (worker 0 only; small enumeration)
	if (rc.Replay == nil && rc.Worker == 0) || (rc.Replay != nil && rc.Replay.Scenario == "stable-valset") {
		c17RunMode(rc, mkC17World(0), true)
		if rc.Replay != nil {
			return
		}
	}
	adversarial := func() func() time.Time {
		t := time.Date(2099, 1, 1, 0, 0, 0, 0, time.UTC)
		return func() time.Time { t = t.Add(-37 * time.Hour); return t }
	}
	sites := map[string]bool{}
	checkHistory := func(s Skeleton, labels []string, ndev int) {
		if rc.TimeUp() {
			rc.Cap()
			return
		}
		ref := runHistory(s, labels, nil, nil, false)
		rc.Count("executions", 1)
		rc.Count("states", int64(len(ref.digests)))
		rc.Count("transitions", int64(len(labels)))
		report := func(oracle, detail string) {
			rc.Violate(Violation{Oracle: oracle, Sig: "determinism|" + oracle, Detail: detail, Scenario: s.Name, Trace: labels, NDev: ndev})
		}
		cmp := func(oracle, what string, other histResult) {
			rc.Count("executions", 1)
			rc.Count("transitions", int64(len(labels)))
			if d := firstDiff(ref, other); d != "" {
				report(oracle, fmt.Sprintf("%s: %s", what, d))
			}
		}
		cmp("plain-rerun", "second execution of the same history", runHistory(s, labels, nil, nil, false))
		cmp("wall-clock", "execution under an adversarial wall clock", runHistory(s, labels, nil, adversarial(), false))
		cmp("node-config", "execution on a node with different local configuration", runHistory(s, labels, nil, nil, true))
		perSite := map[string]int{}
		for j, oc := range ref.occs {
			sites[oc.site] = true
			if oc.n < 2 {
				continue
			}
			perSite[oc.site]++
			if rc.Quick() && (perSite[oc.site] > 2 || (ndev > 0 && perSite[oc.site] > 1)) {
				rc.Count("occurrences_skipped_quick", 1)
				continue // quick tier: first two dynamic occurrences per site and skeleton history, the first one in deviated histories
			}
			rc.Count("order_sensitive_occurrences", 1)
			for _, perm := range altOrders(oc.n) {
				j, perm := j, perm
				other := runHistory(s, labels, func(site string, occ, n int) []int {
					if occ == j && n == len(perm) {
						return perm
					}
					return nil
				}, nil, false)
				rc.Count("order_deviations", 1)
				site := oc.site
				if i := strings.LastIndex(site, ":"); i > 0 {
					site = site[:i]
				}
				cmp("map-order|"+site, fmt.Sprintf("map iteration order %v at occurrence %d (%s, %d keys)", perm, j, oc.site, oc.n), other)
			}
		}
	}
	for _, s := range c01Skeletons() {
		if rc.Replay != nil {
			if rc.Replay.Scenario == s.Name {
				checkHistory(s, rc.Replay.Trace, 0)
			}
			continue
		}
		if rc.Mine() {
			checkHistory(s, s.Labels, 0)
			rc.Sample(map[string]interface{}{"skeleton": s.Name, "events": s.Labels})
		}
		// k=1: every single inserted/substituted event
		if rc.Quick() && s.Name != "multi-reward" && s.Name != "equal-power-reward" && s.Name != "three-way-mode-tie" {
			continue // quick tier: single deviations only around the two order-sensitive skeletons
		}
		w := NewWorld(s.Cfg)
		c := StdSetup(w, s.MintOn)
		var alph []string
		for _, ev := range WithBlocks(c01Alphabet(c))(w) {
			if rc.Quick() && !c01Sharp(ev.Tag) {
				continue
			}
			alph = append(alph, ev.Label)
		}
		for i := 0; i <= len(s.Labels); i++ {
			for _, a := range alph {
				if !rc.Mine() {
					continue
				}
				ins := append(append(append([]string(nil), s.Labels[:i]...), a), s.Labels[i:]...)
				checkHistory(s, ins, 1)
				if i < len(s.Labels) {
					sub := append(append(append([]string(nil), s.Labels[:i]...), a), s.Labels[i+1:]...)
					checkHistory(s, sub, 1)
				}
			}
		}
	}
	var l []string
	for s := range sites {
		l = append(l, s)
	}
	sort.Strings(l)
	for _, s := range l {
		rc.Distinct("seam_sites_exercised", s)
	}
}

// c01Sharp selects the order-sensitive part of the alphabet for the quick tier.
func c01Sharp(tag string) bool {
	for _, p := range []string{"submit-mode/", "submit/std", "submit/third", "tip/modeq", "tip/cyc", "delegate/big", "propose/warning-full", "vote/Team", "vote/R2", "undelegate/validator", "switch", "withdrawtip"} {
		if strings.HasPrefix(tag, p) {
			return true
		}
	}
	return false
}
