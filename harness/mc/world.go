//go:build verif

// Package mc is the explicit-state model-checking harness (engine E1 of
// /verif/DESIGN.md): a World wraps the real application, executes transactions
// with baseapp semantics on copy-on-write branches of the real multistore and
// advances blocks through the real Pre/Begin/EndBlockers.
package mc

import (
	"crypto/sha256"
	"encoding/binary"
	"encoding/json"
	"fmt"
	"os"
	"runtime/debug"
	"sort"
	"time"

	abci "github.com/cometbft/cometbft/abci/types"
	cmtproto "github.com/cometbft/cometbft/proto/tendermint/types"
	dbm "github.com/cosmos/cosmos-db"
	ethcrypto "github.com/ethereum/go-ethereum/crypto"
	"github.com/tellor-io/layer/app"
	disputetypes "github.com/tellor-io/layer/x/dispute/types"
	minttypes "github.com/tellor-io/layer/x/mint/types"
	oracletypes "github.com/tellor-io/layer/x/oracle/types"
	rante "github.com/tellor-io/layer/x/reporter/ante"
	protov2 "google.golang.org/protobuf/proto"

	"cosmossdk.io/core/header"
	"cosmossdk.io/log"
	"cosmossdk.io/math"
	storetypes "cosmossdk.io/store/types"

	"github.com/cosmos/cosmos-sdk/baseapp"
	codectypes "github.com/cosmos/cosmos-sdk/codec/types"
	"github.com/cosmos/cosmos-sdk/crypto/keys/ed25519"
	"github.com/cosmos/cosmos-sdk/crypto/keys/secp256k1"
	simtestutil "github.com/cosmos/cosmos-sdk/testutil/sims"
	sdk "github.com/cosmos/cosmos-sdk/types"
	authtypes "github.com/cosmos/cosmos-sdk/x/auth/types"
	banktypes "github.com/cosmos/cosmos-sdk/x/bank/types"
	govtypes "github.com/cosmos/cosmos-sdk/x/gov/types"
	slashingtypes "github.com/cosmos/cosmos-sdk/x/slashing/types"
	stakingtypes "github.com/cosmos/cosmos-sdk/x/staking/types"
)

const (
	ChainID = "layer"
	Denom   = "loya"
	TRB     = int64(1_000_000)
)

// GenesisTime is fixed so that no run depends on the wall clock.
var GenesisTime = time.Date(2023, 11, 14, 22, 13, 20, 0, time.UTC)

type Validator struct {
	Name     string
	ConsPriv *ed25519.PrivKey
	OpPriv   *secp256k1.PrivKey
	Acc      sdk.AccAddress
	Val      sdk.ValAddress
	EVMPriv  []byte // 32-byte secp256k1 key used for bridge signatures
	EVMAddr  []byte // 20 bytes
}

type User struct {
	Name string
	Priv *secp256k1.PrivKey
	Acc  sdk.AccAddress
}

// Config fixes the (small) genesis world. Every field has a default.
type Config struct {
	ValStakes       []int64 // whole TRB self-delegated by each genesis validator
	NoTeam          bool    // the dispute genesis carries no team address (params validation accepts that)
	NumUsers        int
	UserBalance     int64 // loya
	MaxValidators   uint32
	RegisterEVM     []bool // per validator: EVM address registered at genesis (default all true)
	Cyclelist       [][]byte
	UnbondingTime   time.Duration
	ExtraAppOptions map[string]interface{}
}

func (c *Config) defaults() {
	if len(c.ValStakes) == 0 {
		c.ValStakes = []int64{5000, 3000, 2000}
	}
	if c.NumUsers == 0 {
		c.NumUsers = 7
	}
	if c.UserBalance == 0 {
		c.UserBalance = 100_000 * TRB
	}
	if c.MaxValidators == 0 {
		c.MaxValidators = 100
	}
	if c.UnbondingTime == 0 {
		c.UnbondingTime = 21 * 24 * time.Hour
	}
	if c.RegisterEVM == nil {
		c.RegisterEVM = make([]bool, len(c.ValStakes))
		for i := range c.RegisterEVM {
			c.RegisterEVM[i] = true
		}
	}
}

// World is one explored chain state: a branch of the real multistore plus the
// header the next transactions execute under.
type World struct {
	App  *app.App
	Ctx  sdk.Context
	Cfg  Config
	Vals []*Validator
	Usr  []*User
	Team *User
	Gov  string

	limiter rante.TrackStakeChangesDecorator

	// Halt is set when Pre/Begin/EndBlock returned an error or panicked.
	Halt *HaltInfo
	// Trace is the list of events that led here (for replay files).
	Trace []string
	// Devs are the tags of the deviation events applied on the way here.
	Devs []string
	// Events emitted since the last call of TakeEvents (block + tx events in order).
	events []abci.Event
	// LB holds balances sampled between the phases of the last Block call.
	LB BlockPhases
	// Minted accumulates what the mint monitor has seen minted since MintSince.
	Minted    math.Int
	MintSince time.Time
	// MintInitAt: block time at which the monitor saw MsgInit accepted; MintRefPrev: the monitor's own mint clock.
	MintInitAt  time.Time
	MintRefPrev *time.Time
	// FromBondShort accumulates, per known finding C04/F1, how much less than the recorded fee
	// fee-from-stake payments actually moved into the dispute account.
	FromBondShort math.Int
	// SnapSeen: selector -> last (reporter, time) whose stake snapshot included it (C10).
	SnapSeen map[string]snapSeen
	// Ledgers: dispute hash -> shadow settlement ledger (C13); copy-on-write.
	Ledgers map[string]*famLedger
	// Claimed: deposit ids the bridge monitor has seen turned into tokens (C14); copy-on-write.
	Claimed map[uint64]bool
	SupplyClaimed map[uint64]bool // deposit ids whose amount the supply ledger has already counted (C03)
}

// BlockPhases are module balances sampled after EndBlocker and after BeginBlocker.
type BlockPhases struct {
	SupplyAfterEnd, TBRAfterEnd, FeeDistAfterEnd       math.Int
	SupplyAfterBegin, TBRAfterBegin, FeeDistAfterBegin math.Int
	BeginEvents                                        []abci.Event
	MintRefBefore                                      *time.Time // the harness' mint clock as of before this block's BeginBlock
}

// ReceivedInBegin sums the bank "coin_received" events of the last BeginBlock for one receiver.
func (w *World) ReceivedInBegin(receiver sdk.AccAddress) math.Int {
	sum := math.ZeroInt()
	for _, ev := range w.LB.BeginEvents {
		if ev.Type != "coin_received" {
			continue
		}
		var rcv, amt string
		for _, a := range ev.Attributes {
			switch a.Key {
			case "receiver":
				rcv = a.Value
			case "amount":
				amt = a.Value
			}
		}
		if rcv == receiver.String() {
			if c, err := sdk.ParseCoinsNormalized(amt); err == nil {
				sum = sum.Add(c.AmountOf(Denom))
			}
		}
	}
	return sum
}

func (w *World) feeDist() math.Int {
	return w.ModBal(authtypes.FeeCollectorName).Add(w.ModBal("distribution"))
}

type HaltInfo struct {
	Phase  string // "pre" | "begin" | "end"
	Height int64
	Err    string
	Panic  bool
	Stack  string
}

func (h *HaltInfo) String() string {
	p := ""
	if h.Panic {
		p = " (panic)"
	}
	return fmt.Sprintf("%sBlock at height %d failed%s: %s", h.Phase, h.Height, p, h.Err)
}

var sdkConfigured bool

func configureSDK() {
	if sdkConfigured {
		return
	}
	sdkConfigured = true
	sdk.DefaultBondDenom = Denom
	cfg := sdk.GetConfig()
	cfg.SetBech32PrefixForAccount("tellor", "tellorpub")
	cfg.SetBech32PrefixForValidator("tellorvaloper", "tellorvaloperpub")
	cfg.SetBech32PrefixForConsensusNode("tellorvalcons", "tellorvalconspub")
}

func mkUser(name string) *User {
	p := secp256k1.GenPrivKeyFromSecret([]byte("verif-user-" + name))
	return &User{Name: name, Priv: p, Acc: sdk.AccAddress(p.PubKey().Address())}
}

func mkValidator(i int) *Validator {
	name := fmt.Sprintf("V%d", i+1)
	op := secp256k1.GenPrivKeyFromSecret([]byte("verif-valop-" + name))
	cons := ed25519.GenPrivKeyFromSecret([]byte("verif-valcons-" + name))
	evmSeed := sha256.Sum256([]byte("verif-evm-" + name))
	k, err := ethcrypto.ToECDSA(evmSeed[:])
	if err != nil {
		panic(err)
	}
	return &Validator{
		Name: name, ConsPriv: cons, OpPriv: op,
		Acc: sdk.AccAddress(op.PubKey().Address()), Val: sdk.ValAddress(op.PubKey().Address()),
		EVMPriv: evmSeed[:], EVMAddr: ethcrypto.PubkeyToAddress(k.PublicKey).Bytes(),
	}
}

// NewWorld builds a fresh application on a MemDB and runs InitChain.
func NewWorld(cfg Config) *World {
	configureSDK()
	cfg.defaults()
	tmp, err := os.MkdirTemp("", "verifhome")
	if err != nil {
		panic(err)
	}
	defer os.RemoveAll(tmp)
	opts := simtestutil.AppOptionsMap{"home": tmp}
	for k, v := range cfg.ExtraAppOptions {
		opts[k] = v
	}
	a := app.New(log.NewNopLogger(), dbm.NewMemDB(), nil, true, opts, baseapp.SetChainID(ChainID))
	w := &World{App: a, Cfg: cfg, Gov: authtypes.NewModuleAddress(govtypes.ModuleName).String()}
	for i := range cfg.ValStakes {
		w.Vals = append(w.Vals, mkValidator(i))
	}
	for i := 0; i < cfg.NumUsers; i++ {
		w.Usr = append(w.Usr, mkUser(fmt.Sprintf("U%d", i+1)))
	}
	w.Team = mkUser("team")

	cdc := a.AppCodec()
	gs := app.GenesisState(a.BasicModuleManager.DefaultGenesis(cdc))

	// accounts + balances
	var accs []authtypes.GenesisAccount
	var bals []banktypes.Balance
	supply := math.ZeroInt()
	addAcc := func(addr sdk.AccAddress, amt int64) {
		accs = append(accs, authtypes.NewBaseAccount(addr, nil, uint64(len(accs)), 0))
		bals = append(bals, banktypes.Balance{Address: addr.String(), Coins: sdk.NewCoins(sdk.NewInt64Coin(Denom, amt))})
		supply = supply.AddRaw(amt)
	}
	for _, v := range w.Vals {
		addAcc(v.Acc, cfg.UserBalance)
	}
	for _, u := range w.Usr {
		addAcc(u.Acc, cfg.UserBalance)
	}
	addAcc(w.Team.Acc, cfg.UserBalance)
	gs[authtypes.ModuleName] = cdc.MustMarshalJSON(authtypes.NewGenesisState(authtypes.DefaultParams(), accs))

	// staking
	sp := stakingtypes.DefaultParams()
	sp.BondDenom = Denom
	sp.MaxValidators = cfg.MaxValidators
	sp.UnbondingTime = cfg.UnbondingTime
	var vals []stakingtypes.Validator
	var dels []stakingtypes.Delegation
	var signing []slashingtypes.SigningInfo
	bonded, notBonded := math.ZeroInt(), math.ZeroInt()
	for i, v := range w.Vals {
		pkAny, err := codectypes.NewAnyWithValue(v.ConsPriv.PubKey())
		if err != nil {
			panic(err)
		}
		tok := math.NewInt(cfg.ValStakes[i]).MulRaw(TRB)
		status := stakingtypes.Bonded
		if uint32(i) >= cfg.MaxValidators { // stakes are listed in descending order: the rest starts outside the bonded set
			status = stakingtypes.Unbonded
		}
		vals = append(vals, stakingtypes.Validator{
			OperatorAddress: v.Val.String(), ConsensusPubkey: pkAny, Status: status,
			Tokens: tok, DelegatorShares: math.LegacyNewDecFromInt(tok),
			Description:       stakingtypes.Description{Moniker: v.Name},
			UnbondingTime:     time.Unix(0, 0).UTC(),
			Commission:        stakingtypes.NewCommission(math.LegacyZeroDec(), math.LegacyOneDec(), math.LegacyOneDec()),
			MinSelfDelegation: math.OneInt(),
		})
		dels = append(dels, stakingtypes.NewDelegation(v.Acc.String(), v.Val.String(), math.LegacyNewDecFromInt(tok)))
		if status == stakingtypes.Bonded {
			bonded = bonded.Add(tok)
		} else {
			notBonded = notBonded.Add(tok)
		}
		cons := sdk.ConsAddress(v.ConsPriv.PubKey().Address())
		signing = append(signing, slashingtypes.SigningInfo{
			Address:              cons.String(),
			ValidatorSigningInfo: slashingtypes.NewValidatorSigningInfo(cons, 0, 0, time.Unix(0, 0).UTC(), false, 0),
		})
	}
	gs[stakingtypes.ModuleName] = cdc.MustMarshalJSON(stakingtypes.NewGenesisState(sp, vals, dels))
	sl := slashingtypes.DefaultGenesisState()
	sl.SigningInfos = signing
	gs[slashingtypes.ModuleName] = cdc.MustMarshalJSON(sl)
	bals = append(bals, banktypes.Balance{
		Address: authtypes.NewModuleAddress(stakingtypes.BondedPoolName).String(),
		Coins:   sdk.NewCoins(sdk.NewCoin(Denom, bonded)),
	})
	supply = supply.Add(bonded)
	if notBonded.IsPositive() {
		bals = append(bals, banktypes.Balance{
			Address: authtypes.NewModuleAddress(stakingtypes.NotBondedPoolName).String(),
			Coins:   sdk.NewCoins(sdk.NewCoin(Denom, notBonded)),
		})
		supply = supply.Add(notBonded)
	}
	var bankGen banktypes.GenesisState
	cdc.MustUnmarshalJSON(gs[banktypes.ModuleName], &bankGen)
	bankGen.Balances = bals
	bankGen.Supply = sdk.NewCoins(sdk.NewCoin(Denom, supply))
	gs[banktypes.ModuleName] = cdc.MustMarshalJSON(&bankGen)

	// dispute team
	var dg disputetypes.GenesisState
	cdc.MustUnmarshalJSON(gs[disputetypes.ModuleName], &dg)
	dg.Params.TeamAddress = w.Team.Acc
	if cfg.NoTeam {
		dg.Params.TeamAddress = nil // the default genesis carries a default team address
	}
	gs[disputetypes.ModuleName] = cdc.MustMarshalJSON(&dg)

	if cfg.Cyclelist != nil {
		var og oracletypes.GenesisState
		cdc.MustUnmarshalJSON(gs[oracletypes.ModuleName], &og)
		og.Cyclelist = cfg.Cyclelist
		gs[oracletypes.ModuleName] = cdc.MustMarshalJSON(&og)
	}

	bz, err := json.Marshal(gs)
	if err != nil {
		panic(err)
	}
	cp := simtestutil.DefaultConsensusParams
	cpp := *cp
	cpp.Abci = &cmtproto.ABCIParams{VoteExtensionsEnableHeight: 1}
	if _, err := a.InitChain(&abci.RequestInitChain{
		ChainId: ChainID, Time: GenesisTime, InitialHeight: 1,
		ConsensusParams: &cpp, AppStateBytes: bz,
	}); err != nil {
		panic(fmt.Errorf("InitChain: %w", err))
	}
	hdr := cmtproto.Header{ChainID: ChainID, Height: 1, Time: GenesisTime,
		ProposerAddress: w.Vals[0].ConsPriv.PubKey().Address()}
	base := a.BaseApp.NewContextLegacy(false, hdr)
	cc, _ := base.CacheContext()
	w.Ctx = cc.WithGasMeter(storetypes.NewInfiniteGasMeter()).
		WithBlockGasMeter(storetypes.NewInfiniteGasMeter()).
		WithEventManager(sdk.NewEventManager()).
		WithConsensusParams(cpp).WithChainID(ChainID)
	w.limiter = rante.NewTrackStakeChangesDecorator(a.ReporterKeeper, a.StakingKeeper)
	for i, v := range w.Vals {
		if cfg.RegisterEVM[i] {
			if err := a.BridgeKeeper.SetEVMAddressByOperator(w.Ctx, v.Val.String(), v.EVMAddr); err != nil {
				panic(err)
			}
		}
	}
	w.setVotes()
	// Height 1 BeginBlock (InitChain leaves us "inside" block 1 before BeginBlock).
	if _, err := a.BeginBlocker(w.Ctx); err != nil {
		panic(fmt.Errorf("BeginBlock(1): %w", err))
	}
	return w
}

// setVotes installs a LastCommit in which every currently bonded validator signed.
func (w *World) setVotes() {
	vs, err := w.App.StakingKeeper.GetBondedValidatorsByPower(w.Ctx)
	if err != nil {
		panic(err)
	}
	votes := make([]abci.VoteInfo, 0, len(vs))
	for _, v := range vs {
		ca, err := v.GetConsAddr()
		if err != nil {
			panic(err)
		}
		votes = append(votes, abci.VoteInfo{
			Validator:   abci.Validator{Address: ca, Power: v.GetConsensusPower(sdk.DefaultPowerReduction)},
			BlockIdFlag: cmtproto.BlockIDFlagCommit,
		})
	}
	w.Ctx = w.Ctx.WithVoteInfos(votes)
}

// Fork returns an independent copy-on-write branch of this world.
func (w *World) Fork() *World {
	cc, _ := w.Ctx.CacheContext()
	n := *w
	n.Ctx = cc.WithEventManager(sdk.NewEventManager())
	n.Trace = append([]string(nil), w.Trace...)
	n.Devs = append([]string(nil), w.Devs...)
	n.events = nil
	n.Halt = w.Halt
	return &n
}

func (w *World) Height() int64   { return w.Ctx.BlockHeight() }
func (w *World) Time() time.Time { return w.Ctx.BlockTime() }

type mockTx struct{ msgs []sdk.Msg }

func (m mockTx) GetMsgs() []sdk.Msg                    { return m.msgs }
func (m mockTx) GetMsgsV2() ([]protov2.Message, error) { return nil, nil }

// TxResult describes the outcome of one transaction.
type TxResult struct {
	OK    bool
	Err   string
	Panic bool
}

// Tx executes msgs atomically with baseapp runTx semantics: ValidateBasic,
// the repository's stake-change ante decorator, then every message through the
// real MsgServiceRouter on a branch that is written only if all succeed. A
// panic inside a message is recovered and rejects the tx, as in baseapp.
func (w *World) Tx(msgs ...sdk.Msg) (res TxResult) {
	cc, write := w.Ctx.CacheContext()
	cc = cc.WithEventManager(sdk.NewEventManager())
	defer func() {
		if r := recover(); r != nil {
			res = TxResult{OK: false, Err: fmt.Sprint(r), Panic: true}
		}
	}()
	for _, m := range msgs {
		if vb, ok := m.(sdk.HasValidateBasic); ok {
			if err := vb.ValidateBasic(); err != nil {
				return TxResult{Err: "validate-basic: " + err.Error()}
			}
		}
	}
	if _, err := w.limiter.AnteHandle(cc, mockTx{msgs}, false, func(c sdk.Context, _ sdk.Tx, _ bool) (sdk.Context, error) { return c, nil }); err != nil {
		return TxResult{Err: "ante: " + err.Error()}
	}
	for _, m := range msgs {
		h := w.App.MsgServiceRouter().Handler(m)
		if h == nil {
			return TxResult{Err: fmt.Sprintf("no handler for %T", m)}
		}
		r, err := h(cc, m)
		if err != nil {
			return TxResult{Err: err.Error()}
		}
		if r != nil {
			cc.EventManager().EmitEvents(r.GetEvents())
		}
	}
	write()
	w.events = append(w.events, cc.EventManager().ABCIEvents()...)
	for _, m := range msgs {
		if _, ok := m.(*minttypes.MsgInit); ok && w.MintInitAt.IsZero() {
			w.MintInitAt = w.Ctx.BlockTime() // governance started minting in this block
		}
	}
	return TxResult{OK: true}
}

func (w *World) guard(phase string, f func() error) bool {
	var err error
	pan := false
	stack := ""
	func() {
		defer func() {
			if r := recover(); r != nil {
				err = fmt.Errorf("%v", r)
				pan = true
				stack = string(debug.Stack())
			}
		}()
		err = f()
	}()
	if err != nil {
		w.Halt = &HaltInfo{Phase: phase, Height: w.Ctx.BlockHeight(), Err: err.Error(), Panic: pan, Stack: stack}
		return false
	}
	return true
}

// Block finishes the current block (EndBlocker), advances the header by dt and
// starts the next one (PreBlocker with the optional injected first tx, then
// BeginBlocker). It returns false and sets w.Halt if any of them fails: on a
// real node that is a consensus failure.
func (w *World) Block(dt time.Duration, injected ...[]byte) bool {
	if w.Halt != nil {
		return false
	}
	w.Ctx = w.Ctx.WithEventManager(sdk.NewEventManager())
	var endEvents []abci.Event
	if !w.guard("end", func() error {
		r, err := w.App.EndBlocker(w.Ctx)
		endEvents = r.Events
		return err
	}) {
		return false
	}
	w.events = append(w.events, w.Ctx.EventManager().ABCIEvents()...)
	w.events = append(w.events, endEvents...)
	w.LB.SupplyAfterEnd, w.LB.TBRAfterEnd, w.LB.FeeDistAfterEnd = w.Supply(), w.ModBal("time_based_rewards"), w.feeDist()
	h := w.Ctx.BlockHeight() + 1
	t := w.Ctx.BlockTime().Add(dt)
	hdr := w.Ctx.BlockHeader()
	hdr.Height = h
	hdr.Time = t
	w.Ctx = w.Ctx.WithBlockHeader(hdr).WithHeaderInfo(headerInfo(h, t)).WithEventManager(sdk.NewEventManager())
	w.setVotes()
	w.LB.MintRefBefore = nil
	if !w.MintInitAt.IsZero() {
		w.LB.MintRefBefore = w.MintRefPrev
		tt := t
		w.MintRefPrev = &tt
	}
	req := &abci.RequestFinalizeBlock{Height: h, Time: t, Txs: injected}
	if !w.guard("pre", func() error { _, err := w.App.VerifPreBlocker()(w.Ctx, req); return err }) {
		return false
	}
	var beginEvents []abci.Event
	if !w.guard("begin", func() error {
		r, err := w.App.BeginBlocker(w.Ctx)
		beginEvents = r.Events
		return err
	}) {
		return false
	}
	w.LB.BeginEvents = append(w.Ctx.EventManager().ABCIEvents(), beginEvents...)
	w.events = append(w.events, w.LB.BeginEvents...)
	w.LB.SupplyAfterBegin, w.LB.TBRAfterBegin, w.LB.FeeDistAfterBegin = w.Supply(), w.ModBal("time_based_rewards"), w.feeDist()
	return true
}

// TakeEvents returns and clears the events accumulated so far.
func (w *World) TakeEvents() []abci.Event {
	e := w.events
	w.events = nil
	return e
}

// ---- state inspection -------------------------------------------------------

func (w *World) storeNames() []string {
	n := w.App.VerifStoreKeys()
	sort.Strings(n)
	return n
}

// StateHash is a canonical digest of height, time and every (key,value) of
// every mounted KV store in name/key order. Nothing is abstracted away.
func (w *World) StateHash() [32]byte {
	h := sha256.New()
	var b [8]byte
	binary.BigEndian.PutUint64(b[:], uint64(w.Ctx.BlockHeight()))
	h.Write(b[:])
	binary.BigEndian.PutUint64(b[:], uint64(w.Ctx.BlockTime().UnixNano()))
	h.Write(b[:])
	for _, name := range w.storeNames() {
		h.Write([]byte(name))
		st := w.Ctx.KVStore(w.App.GetKey(name))
		it := st.Iterator(nil, nil)
		for ; it.Valid(); it.Next() {
			k, v := it.Key(), it.Value()
			binary.BigEndian.PutUint64(b[:], uint64(len(k)))
			h.Write(b[:])
			h.Write(k)
			binary.BigEndian.PutUint64(b[:], uint64(len(v)))
			h.Write(b[:])
			h.Write(v)
		}
		it.Close()
	}
	var out [32]byte
	copy(out[:], h.Sum(nil))
	return out
}

// StoreDump returns all (key,value) pairs of one store (for append-only diffs).
func (w *World) StoreDump(name string) map[string]string {
	out := map[string]string{}
	st := w.Ctx.KVStore(w.App.GetKey(name))
	it := st.Iterator(nil, nil)
	defer it.Close()
	for ; it.Valid(); it.Next() {
		out[string(it.Key())] = string(it.Value())
	}
	return out
}

func (w *World) Supply() math.Int {
	return w.App.BankKeeper.GetSupply(w.Ctx, Denom).Amount
}

func (w *World) Bal(a sdk.AccAddress) math.Int {
	return w.App.BankKeeper.GetBalance(w.Ctx, a, Denom).Amount
}

func (w *World) ModBal(name string) math.Int {
	return w.Bal(authtypes.NewModuleAddress(name))
}

// SumBalances adds up every account balance in the bank store.
func (w *World) SumBalances() math.Int {
	s := math.ZeroInt()
	w.App.BankKeeper.IterateAllBalances(w.Ctx, func(_ sdk.AccAddress, c sdk.Coin) bool {
		if c.Denom == Denom {
			s = s.Add(c.Amount)
		}
		return false
	})
	return s
}

func Coin(n int64) sdk.Coin { return sdk.NewInt64Coin(Denom, n) }

func headerInfo(h int64, t time.Time) header.Info {
	return header.Info{Height: h, Time: t, ChainID: ChainID}
}
