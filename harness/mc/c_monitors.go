//go:build verif

package mc

import "time"

// runSkeletons explores all <=k-deviation histories around the shared skeletons
// with the given monitors (plus the halt monitor's trace for context).
func runSkeletons(rc *RunCtx, mons []Monitor, k int) {
	for _, s := range Skeletons() {
		if rc.Replay != nil && rc.Replay.Scenario != s.Name {
			continue
		}
		w, _, sk, alpha := BuildSkeleton(s)
		e := &Explorer{RC: rc, Scenario: s.Name, Monitors: mons, Horizon: QuiesceHorizon}
		if rc.Replay != nil {
			end := e.ReplayTrace(w, rc.Replay.Trace, Resolver(sk, alpha))
			if end.Halt == nil {
				e.RunHorizon(end)
			}
			return
		}
		e.Deviations(w, sk, alpha, k)
		rc.Sample(map[string]interface{}{"skeleton": s.Name, "events": s.Labels})
	}
}

func kOf(rc *RunCtx) int {
	if rc.Quick() {
		return 1
	}
	return 2
}

const sharedRule = "all histories with <=k (1 quick, 2 thorough) inserted/substituted events from the full message alphabet (~190 message variants of every module + 8 block gaps) around the 7 shared skeletons, each run to a 9-block quiescence horizon on the real app; "

func init() {
	Register("C04", &CheckInfo{Fn: func(rc *RunCtx) { runSkeletons(rc, []Monitor{EscrowMonitor{Probe: true}}, kOf(rc)) }, Level: "model_checking",
		Rule:        sharedRule + "oracle at every block boundary: oracle account == sum of open-query tips, tips escrow >= sum of selector credits, no negative credit, bridge account == 0, dispute account >= escrowed stake + fees of unsettled disputes; branch probe: every entitled claim (WithdrawTip, WithdrawFeeRefund, ClaimReward) in forward and reverse order never fails for lack of funds",
		QuickBudget: 6 * time.Minute, ThoroughBudget: 25 * time.Minute})
	Register("C05", &CheckInfo{Fn: func(rc *RunCtx) { runSkeletons(rc, []Monitor{PoolMonitor{}}, kOf(rc)) }, Level: "model_checking",
		Rule:        sharedRule + "oracle after every accepted operation and block: bonded pool >= tokens of bonded validators, not-bonded pool >= tokens of other validators + unbonding entries, SDK NonNegativePower/PositiveDelegation/DelegatorShares invariants, pool excess grows by at most one unit per returned entry",
		QuickBudget: 6 * time.Minute, ThoroughBudget: 25 * time.Minute})
	Register("C08", &CheckInfo{Fn: func(rc *RunCtx) { runSkeletons(rc, []Monitor{AggMonitor{}}, kOf(rc)) }, Level: "model_checking",
		Rule:        sharedRule + "oracle on every transition: the Aggregates collection changes only by appending a key with a larger timestamp and index+1, or by Flagged false->true",
		QuickBudget: 6 * time.Minute, ThoroughBudget: 25 * time.Minute})
	Register("C19", &CheckInfo{Fn: func(rc *RunCtx) { runSkeletons(rc, []Monitor{FrameMonitor{}}, kOf(rc)) }, Level: "model_checking",
		Rule:        sharedRule + "oracle around every accepted tx: privileged messages signed by a non-authority are never accepted; for every account other than the signers (liquid balance, delegated+unbonding stake, reward credit, selected reporter) is not reduced/changed except the three listed exceptions; registered specs change only via MsgUpdateDataSpec",
		QuickBudget: 6 * time.Minute, ThoroughBudget: 25 * time.Minute})
}
