//go:build verif

package mc

import (
	"strings"
	"time"
)

// runSkeletons explores all <=k-deviation histories around the shared skeletons
// with the given monitors (plus the halt monitor's trace for context).
// Skeleton families: a check whose monitor only observes one kind of behaviour runs the skeletons that produce it
// (a history without a dispute tells the vote monitor nothing); global monitors run all of them.
var (
	skDispute = []string{"dispute", "dispute-partial", "dispute-rounds", "dispute-sibling", "dispute-dust", "dispute-against-odd", "round-maxval2"}
	skOracle  = []string{"round", "tip-no-report", "governance", "round-maxval2", "deposit-closing", "bridge", "dispute", "dispute-sibling", "attest-history", "mode-after-median"}
)

func runSkeletons(rc *RunCtx, mons []Monitor, k int, only ...string) {
	for _, s := range Skeletons() {
		if rc.Replay != nil && rc.Replay.Scenario != s.Name {
			continue
		}
		if len(only) > 0 && rc.Replay == nil {
			sel := false
			for _, n := range only {
				sel = sel || n == s.Name
			}
			if !sel {
				continue
			}
		}
		w, _, sk, alpha := BuildSkeleton(s)
		e := &Explorer{RC: rc, Scenario: s.Name, Monitors: mons, Horizon: QuiesceHorizon}
		if rc.Replay != nil {
			end := e.ReplayTrace(w, rc.Replay.Trace, Resolver(sk, alpha))
			if end.Halt == nil {
				e.RunHorizon(end)
			}
			return
		}
		e.Deviations(w, sk, alpha, k)
		rc.Sample(map[string]interface{}{"skeleton": s.Name, "events": s.Labels})
	}
}

func isSkeleton(name string) bool {
	for _, s := range Skeletons() {
		if s.Name == name {
			return true
		}
	}
	return false
}

func kOf(rc *RunCtx) int {
	if rc.Quick() {
		return 1
	}
	return 2
}

const sharedRule = "all histories with <=k (1 quick, 2 thorough) inserted/substituted events from the full message alphabet (~190 message variants of every module + 8 block gaps) around the 14 shared skeletons (global monitors: all of them; monitors that only observe one kind of behaviour: the family that produces it), each run to a 9-block quiescence horizon on the real app; "

func init() {
	Register("C04", &CheckInfo{Fn: func(rc *RunCtx) { runSkeletons(rc, []Monitor{EscrowMonitor{Probe: true}}, kOf(rc)) }, Level: "model_checking",
		Rule:        sharedRule + "oracle at every block boundary: oracle account == sum of open-query tips, tips escrow >= sum of selector credits, no negative credit, bridge account == 0, dispute account >= escrowed stake + fees of unsettled disputes; branch probe: every entitled claim (WithdrawTip, WithdrawFeeRefund, ClaimReward) in forward and reverse order never fails for lack of funds",
		QuickBudget: 10 * time.Minute, ThoroughBudget: 15 * time.Minute})
	Register("C05", &CheckInfo{Fn: func(rc *RunCtx) {
		mons := []Monitor{PoolMonitor{}}
		depth := 4
		if !rc.Quick() {
			depth = 6
		}
		keep := func(l string) bool {
			return hasAnyPrefix(l, "Propose(Payer,R1rep,warning,full)", "Propose(Payer,R1rep,major,full)", "Propose(Payer,R2rep,minor,full)", "Propose(R2,R1rep,warning,frombond)", "AddFee(R2,last,rest,frombond)",
				"Undelegate(R1,V1,half)", "Redelegate(R1,V1->V2,half)", "Delegate(Payer,V3,150)", "WithdrawTip(R1,V1)", "WithdrawTip(R2,V2)", "FeeRefund(R2)", "Vote(Team,invalid)", "Vote(Team,support)")
		}
		prep := []string{"Tip(cyc,1000)", "Submit(R1,cyc,std)", "Submit(R2,cyc,std200)", b1, b1, b1}
		gaps := []time.Duration{time.Second, 72*time.Hour + time.Millisecond}
		hz := []time.Duration{72*time.Hour + time.Millisecond, time.Second}
		focusedDFSX(rc, "pool-dfs-slashed", Config{}, false, prep, keep, gaps, mons, depth, hz, true)
		focusedDFSX(rc, "pool-dfs-slashed-maxval2", Config{ValStakes: []int64{5000, 3000, 2900}, MaxValidators: 2}, false, prep, keep, gaps, mons, depth, hz, true)
		runSkeletons(rc, mons, kOf(rc))
	}, Level: "model_checking",
		Rule:        sharedRule + "plus an exhaustive DFS depth 4 (quick) / 6 (thorough) in two validator-cap worlds over {validator slashed 1% by evidence (exchange rate != 1), validator jailed for downtime (unbonding), tips withdrawn to it, disputes warning/major/minor/from-bond, add-fee from bond, undelegate/redelegate half, bonding-set change, withdraw tip, fee refund, team votes, Block 1s/3d+1ms}; oracle after every accepted operation and block: bonded pool >= tokens of bonded validators, not-bonded pool >= tokens of other validators + unbonding entries, SDK NonNegativePower/PositiveDelegation/DelegatorShares invariants, pool excess (pools minus ledger) never shrinks in a transition and grows by at most one unit per returned entry",
		QuickBudget: 10 * time.Minute, ThoroughBudget: 15 * time.Minute})
	Register("C08", &CheckInfo{Fn: func(rc *RunCtx) { runSkeletons(rc, []Monitor{AggMonitor{}}, kOf(rc), skOracle...) }, Level: "model_checking",
		Rule:        sharedRule + "oracle on every transition: the Aggregates collection changes only by appending a key with a larger timestamp and index+1, or by Flagged false->true; whenever the collection changed, every lookup (current, before, before-by-reporter, by index 0..len+1, by timestamp, timestamp before/after) is compared with the chronological list model at one probe per region of the timestamp axis, and the previous/next timestamps of every new attestation snapshot with the list neighbours; a newly flagged aggregate is named by some dispute's evidence, and when a dispute becomes funded every aggregate its report determined is flagged",
		QuickBudget: 10 * time.Minute, ThoroughBudget: 15 * time.Minute})
	Register("C19", &CheckInfo{Fn: func(rc *RunCtx) {
		runSkeletons(rc, []Monitor{FrameMonitor{}}, kOf(rc))
		// a chain whose dispute genesis carries no team address: every privileged message, again with a user as signer
		if rc.Replay == nil || rc.Replay.Scenario == "governance-no-team" {
			for _, s := range Skeletons() {
				if s.Name != "governance" {
					continue
				}
				s.Name, s.Cfg.NoTeam = "governance-no-team", true
				w, _, sk, alpha := BuildSkeleton(s)
				e := &Explorer{RC: rc, Scenario: s.Name, Monitors: []Monitor{FrameMonitor{}}, Horizon: QuiesceHorizon}
				if rc.Replay != nil {
					end := e.ReplayTrace(w, rc.Replay.Trace, Resolver(sk, alpha))
					if end.Halt == nil {
						e.RunHorizon(end)
					}
					return
				}
				e.Deviations(w, sk, alpha, 1)
			}
		}
	}, Level: "model_checking",
		Rule:        sharedRule + "oracle around every accepted tx: privileged messages signed by a non-authority are never accepted; for every account other than the signers (liquid balance, delegated+unbonding stake, reward credit, selected reporter) is not reduced/changed except the three listed exceptions; registered specs change only via MsgUpdateDataSpec",
		QuickBudget: 10 * time.Minute, ThoroughBudget: 15 * time.Minute})
}

// focusedDFS runs an exhaustive DFS over a sub-alphabet (selected by label predicate) from the standard set-up.
func focusedDFS(rc *RunCtx, name string, cfg Config, mintOn bool, prep []string, keep func(label string) bool, gaps []time.Duration, mons []Monitor, depth int, horizon []time.Duration) {
	focusedDFSX(rc, name, cfg, mintOn, prep, keep, gaps, mons, depth, horizon, false)
}

// focusedDFSX optionally adds the environment events (validator slashed by x/slashing evidence).
func focusedDFSX(rc *RunCtx, name string, cfg Config, mintOn bool, prep []string, keep func(label string) bool, gaps []time.Duration, mons []Monitor, depth int, horizon []time.Duration, env bool) {
	if rc.Replay != nil && rc.Replay.Scenario != name {
		return
	}
	w := NewWorld(cfg)
	c := StdSetup(w, mintOn)
	full := FullAlphabet(c)
	if env {
		base := full
		full = func(w *World) []Event { return append(base(w), EnvEvents(w)...) }
	}
	alpha := func(w *World) []Event {
		var out []Event
		for _, ev := range full(w) {
			if keep(ev.Label) || strings.HasPrefix(ev.Tag, "env/") {
				out = append(out, ev)
			}
		}
		for _, g := range gaps {
			out = append(out, BlockEv(g))
		}
		return out
	}
	resolve := Resolver(nil, WithBlocks(full))
	e := &Explorer{RC: rc, Scenario: name, Monitors: mons, Horizon: horizon}
	if rc.Replay != nil {
		e.ReplayTrace(w, rc.Replay.Trace, resolve)
		return
	}
	cur := w
	for _, l := range prep {
		ev, ok := resolve(cur, l)
		if !ok {
			panic(name + " prep: cannot resolve " + l)
		}
		e.quiet = rc.Worker != 0
		n, out := e.Step(cur, ev)
		e.quiet = false
		if out.Kind == "tx-rej" || out.Kind == "halt" {
			// the tree under test does not accept this prefix (it does on the pinned tree): the steps so far were
			// monitored, the search from it is skipped and the fact is counted in the evidence
			rc.Distinct("prefixes_not_reachable", name+" at "+l+": "+NormErr(out.Err))
			return
		}
		cur = n
	}
	// shard on the first two events
	for _, ev := range alpha(cur) {
		n, out := e.Step(cur, ev)
		if out.Kind == "tx-rej" || out.Kind == "halt" {
			continue
		}
		if depth <= 1 {
			if rc.Mine() {
				e.RunHorizon(n)
			}
			continue
		}
		for _, ev2 := range alpha(n) {
			if !rc.Mine() {
				continue
			}
			n2, out2 := e.Step(n, ev2)
			if out2.Kind == "tx-rej" || out2.Kind == "halt" {
				continue
			}
			e.DFS(n2, alpha, depth-2)
		}
	}
	rc.Sample(map[string]interface{}{"scenario": name, "prefix": prep, "depth": depth, "alphabet": labels(alpha(cur))})
}

func hasAnyPrefix(s string, ps ...string) bool {
	for _, p := range ps {
		if len(s) >= len(p) && s[:len(p)] == p {
			return true
		}
	}
	return false
}

func init() {
	Register("C07", &CheckInfo{Level: "model_checking", QuickBudget: 10 * time.Minute, ThoroughBudget: 15 * time.Minute,
		Rule: "round monitor derived from the statement (accepted report => tip>0 or scheduled-by-rotation or deposit, height <= expiry, not jailed, stake >= minimum recomputed from staking, never a withdrawal query; later report replaces the earlier; at EndBlock exactly the rounds with reports whose window closed produce one aggregate each, leave the store and their tips leave the oracle account; untouched tips stay; the cycle index changes only with no open window and then to (i+1) mod n) evaluated on (a) an exhaustive DFS depth 4 (quick) / 6 (thorough) over {Tip cyc/next/modeq/modeq2/dep/wd, Submit R1/R2 on cyc/next/modeq/dep/wd, gov cyclelist reorder/shrink/grow, gov spec window 0/5, min-stake change (far above every stake, exactly R1's stake, one unit above it), Block 1s} from the standard state with state-hash dedup, and (b) all <=k-deviation histories around the shared skeletons",
		Fn: func(rc *RunCtx) {
			minStakeBoundaryEvents = true
			mons := []Monitor{RoundMonitor{}}
			depth := 4
			if !rc.Quick() {
				depth = 6
			}
			focusedDFS(rc, "round-dfs", Config{}, true, nil, func(l string) bool {
				return hasAnyPrefix(l, "Tip(cyc", "Tip(next", "Tip(modeq,50)", "Tip(modeq2", "Tip(dep1", "Tip(wd1", "Submit(R1,cyc,std)", "Submit(R2,cyc,std200)", "Submit(R1,next", "Submit(R1,modeq,std)", "Submit(R2,modeq,std200)",
					"Submit(R1,dep1,valid)", "Submit(R1,wd1", "Cyclelist(gov,[btc,eth])", "Cyclelist(gov,+modeq)", "Cyclelist(gov,[eth])", "UpdateSpec(gov,modeq,w=0)", "UpdateSpec(gov,modeq,w=5)", "UpdateSpec(gov,spotprice,w=0)", "OracleParams(gov,minstake=1e12)", "OracleParams(gov,minstake=R1stake")
			}, []time.Duration{time.Second}, mons, depth, []time.Duration{time.Second, time.Second, time.Second, time.Second})
			runSkeletons(rc, mons, kOf(rc), skOracle...)
		}})
	Register("C10", &CheckInfo{Level: "model_checking", QuickBudget: 10 * time.Minute, ThoroughBudget: 15 * time.Minute,
		Rule: "power monitor: on every accepted report the carried power and the stored per-backer stake snapshot equal an independent recomputation from the staking and selector stores (all delegations of every unlocked selector to bonded validators, in worlds with 3 bonded / 2 of 3 bonded / 2 of 4 bonded validators, the last with a selector holding more delegations than MaxValidators); accepted joins respect the selector cap and the reporter's minimum; no report while jailed, no release before the jail time; no selector backs two different reporters within the unbonding period; evaluated on (a) exhaustive DFS depth 4 (quick) / 6 (thorough) over {Delegate, Delegate 2nd validator, big delegate (bonding change), Undelegate all/half, Redelegate, CreateReporter, Select, Switch x2, RemoveSelector, MaxSelectors=1, dispute (jail), Unjail, Submit R1/R2, Block 1s/21d} in two worlds (MaxValidators 100 and 2, so both stake-counting paths run) and (b) all <=k-deviation histories around the shared skeletons",
		Fn: func(rc *RunCtx) {
			mons := []Monitor{PowerMonitor{}}
			depth := 4
			if !rc.Quick() {
				depth = 6
			}
			keep := func(l string) bool {
				return hasAnyPrefix(l, "Delegate(R1,V1,10)", "Delegate(S1,V2,5)", "Delegate(Payer,V3,150)", "Undelegate(R1,V1,all)", "Undelegate(R1,V1,half)", "Undelegate(S1,V1,all)", "Redelegate(R1,V1->V2,half)", "Redelegate(R2,V2->V3,all)",
					"Delegate+CreateReporter(Payer,comm=0)", "Delegate+Select(Payer->R1)", "Switch(", "RemoveSelector", "ReporterParams(gov,maxsel=1)", "Propose(Payer,R1rep,warning,full)", "Unjail(R1)", "CreateReporter(S1,already)", "Submit(S1,cyc,std)", "Delegate+CreateReporter(Payer,min=5TRB)", "Delegate(Tipper,V1,2)", "Select(Tipper->Payer)",
					"Submit(R1,cyc,std)", "Submit(R2,cyc,std200)", "Submit(R1,modeq,std)", "Tip(modeq,50)")
			}
			gaps := []time.Duration{time.Second, 21*24*time.Hour + time.Second}
			prep := []string{"Submit(R1,cyc,std)", "Submit(R2,cyc,std200)", b1}
			focusedDFS(rc, "power-dfs", Config{}, false, prep, keep, gaps, mons, depth, []time.Duration{time.Second})
			focusedDFS(rc, "power-dfs-maxval2", Config{ValStakes: []int64{5000, 3000, 2900}, MaxValidators: 2}, false, prep, keep, gaps, mons, depth, []time.Duration{time.Second})
			// four validators, two of them bonded: a selector can hold more delegations than MaxValidators, which sends
			// the stake computation down its other path (walk over the bonded validators instead of the delegations)
			keep4 := func(l string) bool {
				return hasAnyPrefix(l, "Delegate(S2,Vlast,10)", "Delegate(S1,V2,5)", "Delegate(R1,V1,10)", "Undelegate(S1,V1,all)", "Redelegate(R2,V2->V3,all)", "Switch(S2->R1)",
					"Submit(R1,cyc,std)", "Submit(R2,cyc,std200)")
			}
			focusedDFS(rc, "power-dfs-4val-maxval2", Config{ValStakes: []int64{5000, 3000, 2900, 2800}, MaxValidators: 2}, false, prep, keep4, gaps[:1], mons, depth, []time.Duration{time.Second})
			runSkeletons(rc, mons, kOf(rc), skOracle...)
		}})
	Register("C09", &CheckInfo{Level: "model_checking", QuickBudget: 10 * time.Minute, ThoroughBudget: 15 * time.Minute,
		Rule: "reward monitor with exact rational arithmetic at every EndBlock: for every tipped aggregate and for the time-based reward over all cycle-list/deposit aggregates of the block, each selector's credit delta equals R * p_r/sum(p) * (commission once to the reporter + (1-rate) * origin/total of the stake snapshot taken at report time) within 1e-18 per term, all deltas >= 0, deltas sum to R, the time-based pool is emptied exactly when such aggregates exist; evaluated on (a) commission/topology worlds (rates 0,0.05,0.5,1 and the accepted out-of-range rates 1.5,100,-0.1; 1-3 selectors x 1-2 validators; tips 1,2,3,7,1e6+1,1e15) (b) an exhaustive DFS depth 4/6 over tips/reports/blocks and (c) all <=k-deviation histories around the shared skeletons",
		Fn: checkC09})
}
