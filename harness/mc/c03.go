//go:build verif

package mc

import (
	"time"

	sdk "github.com/cosmos/cosmos-sdk/types"
)

func init() {
	Register("C03", &CheckInfo{
		Fn: checkC03, Level: "model_checking",
		Rule: "shadow supply ledger evaluated on every transition of (a) all <=k-deviation histories around the 7 shared skeletons (full message alphabet) and (b) an exhaustive DFS (depth 4 quick / 6 thorough, state-hash dedup) over {MintInit gov/user, Tip 1/49/50/1000001, WithdrawTokens 1/1e6, ClaimDeposits, Send, Delegate, Submit, Block 400us/1ms/2ms/1s/1d/9d} from a state with a claimable deposit; oracle: per-transition supply delta equals the documented amount (mint=floor(rate*ms/day) split floor(1/4) | rest, tip burn floor(2%), deposit amount/1e12, withdrawal amount, dispute burns <= BurnAmount), rejected tx => 0, sum of balances == supply, cumulative mint <= rate*elapsed",
		Assume:      []string{"distribution/gov/IBC modules do not mint or burn in the explored histories (they are executed for real; any such change would be reported)"},
		QuickBudget: 10 * time.Minute, ThoroughBudget: 15 * time.Minute,
	})
}

func supplyAlphabet(c *Cast) func(w *World) []Event {
	full := FullAlphabet(c)
	want := map[string]bool{
		"MintInit(gov)": true, "MintInit(user)": true,
		"Tip(modeq,1)": true, "Tip(modeq,49)": true, "Tip(modeq,50)": true, "Tip(modeq,1000001)": true,
		"WithdrawTokens(Tipper,20b,1)": true, "WithdrawTokens(Tipper,20b,1e6)": true,
		"ClaimDeposits(Payer,[1],[0])": true, "ClaimDeposits(Payer,[1,1],[0,0])": true,
		"Send(Tipper->Payer,1000)": true, "Delegate(R1,V1,10)": true, "Submit(R1,modeq,std)": true,
	}
	gaps := []time.Duration{400 * time.Microsecond, time.Millisecond, 2 * time.Millisecond, time.Second, 24 * time.Hour, 9 * 24 * time.Hour}
	return func(w *World) []Event {
		var out []Event
		for _, ev := range full(w) {
			if want[ev.Label] {
				out = append(out, ev)
			}
		}
		for _, g := range gaps {
			out = append(out, BlockEv(g))
		}
		return out
	}
}

func checkC03(rc *RunCtx) {
	k := 1
	depth := 4
	if !rc.Quick() {
		k, depth = 2, 6
	}
	mons := []Monitor{SupplyMonitor{}}
	// (b) focused DFS from a state with a claimable deposit and minting not yet started
	{
		w := NewWorld(Config{})
		c := StdSetup(w, false)
		deepDeposit(w, c)
		mustBlock(w, 12*time.Hour)
		w.Trace = nil
		alpha := supplyAlphabet(c)
		e := &Explorer{RC: rc, Scenario: "supply-dfs", Monitors: mons, Horizon: []time.Duration{time.Second, time.Millisecond, time.Second}}
		if rc.Replay != nil {
			if rc.Replay.Scenario == "supply-dfs" {
				e.ReplayTrace(w, rc.Replay.Trace, Resolver(nil, alpha))
				return
			}
		} else {
			// shard on the first event
			for _, ev := range alpha(w) {
				if !rc.Mine() {
					continue
				}
				n, out := e.Step(w, ev)
				if out.Kind == "tx-rej" || out.Kind == "halt" {
					continue
				}
				e.DFS(n, alpha, depth-1)
			}
			rc.Sample(map[string]interface{}{"scenario": "supply-dfs", "depth": depth, "alphabet": labels(alpha(w))})
		}
	}
	// (a) shared skeletons
	for _, s := range Skeletons() {
		if rc.Replay != nil && rc.Replay.Scenario != s.Name {
			continue
		}
		w, _, sk, alpha := BuildSkeleton(s)
		e := &Explorer{RC: rc, Scenario: s.Name, Monitors: mons, Horizon: QuiesceHorizon}
		if rc.Replay != nil {
			end := e.ReplayTrace(w, rc.Replay.Trace, Resolver(sk, alpha))
			if end.Halt == nil {
				e.RunHorizon(end)
			}
			return
		}
		e.Deviations(w, sk, alpha, k)
	}
}

func labels(evs []Event) []string {
	var l []string
	for _, e := range evs {
		l = append(l, e.Label)
	}
	return l
}

var _ = sdk.AccAddress{}
