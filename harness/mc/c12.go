//go:build verif

package mc

import (
	"bytes"
	"fmt"
	"math/big"
	"strings"
	"time"

	disputetypes "github.com/tellor-io/layer/x/dispute/types"
	oracletypes "github.com/tellor-io/layer/x/oracle/types"

	"cosmossdk.io/collections"
	"cosmossdk.io/math"

	sdk "github.com/cosmos/cosmos-sdk/types"
)

func init() {
	Register("C12", &CheckInfo{
		Fn: checkC12, Level: "model_checking",
		Rule: "(a) lifecycle/vote monitor (status edges, one vote per address and round while open, recorded voter power = snapshot stake + snapshot tips + liquid balance (+team constant), group counters = sum of recorded per-voter powers, recorded result = exact-rational formula) on an exhaustive DFS over all orders of {Vote(voter in team/tipper/R1/R2/S1/S2/S3/payer/holder, choice), AddFee, new round, Block(1s|1d|2d+1ms|3d+1ms)} (depth 4 quick / 6 thorough, state-hash dedup) from 3 dispute states, and on all <=k-deviation histories around the shared skeletons; (b) TallyVote on injected counters: every distribution with per-group (support,against,invalid) in {0,1,2,3}^3 x team in {none,S,A,I} x 3 participation levels around quorum x before/after the voting deadline (quick: groups over {0,1,3}); a result must exist for every distribution",
		Assume:      []string{"comparisons of scores closer than 4e-6 (the code's truncation grain) accept either neighbour; exact ties accept any decided result", "participation is vote sum / group total without a cap, as implemented"},
		QuickBudget: 10 * time.Minute, ThoroughBudget: 15 * time.Minute,
	})
}

// ---- exact-rational tally reference (DESIGN §7.3) -------------------------------

type tallyIn struct {
	team                    int // 0 none, 1 S, 2 A, 3 I
	users, reps, holders    [3]uint64
	totTips, totRep, supply *big.Int
	afterEnd                bool
}

// refTally returns the set of acceptable results (several under ties / near-ties) or "voting" when undecided.
func refTally(in tallyIn) (acceptable map[disputetypes.VoteResult]bool, stillVoting bool) {
	score := [3]*big.Rat{new(big.Rat), new(big.Rat), new(big.Rat)}
	part := new(big.Rat)
	if in.team > 0 {
		score[in.team-1].Add(score[in.team-1], big.NewRat(1, 1))
		part.Add(part, big.NewRat(25, 1))
	}
	grp := func(c [3]uint64, total *big.Int) {
		sum := new(big.Int)
		for _, v := range c {
			sum.Add(sum, new(big.Int).SetUint64(v))
		}
		if sum.Sign() == 0 {
			return
		}
		for i, v := range c {
			score[i].Add(score[i], new(big.Rat).SetFrac(new(big.Int).SetUint64(v), sum))
		}
		if total.Sign() > 0 {
			part.Add(part, new(big.Rat).Mul(big.NewRat(25, 1), new(big.Rat).SetFrac(sum, total)))
		}
	}
	grp(in.users, in.totTips)
	grp(in.reps, in.totRep)
	grp(in.holders, in.supply)
	quorum := part.Cmp(big.NewRat(51, 1)) >= 0
	nearQuorum := new(big.Rat).Sub(part, big.NewRat(51, 1))
	nearQuorum.Abs(nearQuorum)
	borderline := nearQuorum.Cmp(big.NewRat(1, 100000)) < 0 // truncation of the ratios (1e-6 of 25%) may flip an exact boundary
	acceptable = map[disputetypes.VoteResult]bool{}
	eps := big.NewRat(4, 1000000)
	best := score[0]
	for _, s := range score[1:] {
		if s.Cmp(best) > 0 {
			best = s
		}
	}
	add := func(q bool) {
		for i, s := range score {
			d := new(big.Rat).Sub(best, s)
			if d.Cmp(eps) <= 0 {
				r := []disputetypes.VoteResult{disputetypes.VoteResult_SUPPORT, disputetypes.VoteResult_AGAINST, disputetypes.VoteResult_INVALID}[i]
				if !q {
					r += 3
				}
				acceptable[r] = true
			}
		}
		// an undecided vote (exact tie) may be resolved as invalid
		n := 0
		for _, s := range score {
			if new(big.Rat).Sub(best, s).Cmp(eps) <= 0 {
				n++
			}
		}
		if n > 1 {
			if q {
				acceptable[disputetypes.VoteResult_INVALID] = true
			} else {
				acceptable[disputetypes.VoteResult_NO_QUORUM_MAJORITY_INVALID] = true
			}
		}
	}
	if quorum || borderline {
		add(true)
	}
	if !quorum || borderline {
		if in.afterEnd {
			add(false)
		} else {
			stillVoting = true
		}
	}
	return
}

// ---- (b) injected-counter enumeration ----------------------------------------------

func c12Tally(rc *RunCtx) {
	w := NewWorld(Config{})
	c := StdSetup(w, false)
	// one real dispute in voting so that all records exist and are consistent
	must(w, "submit", MsgSubmit(c.R1.Acc, w.CycleQuery(), U256(100)))
	mustBlock(w, time.Second)
	mustBlock(w, time.Second)
	mustBlock(w, time.Second)
	rep := firstReportBy(w, c.R1.Acc)
	must(w, "propose", MsgPropose(c.Payer.Acc, *rep, disputetypes.Warning, int64(rep.Power)*TRB/100, false))
	id := lastDisputeID(w)
	dk := w.App.DisputeKeeper
	d0, _ := dk.Disputes.Get(w.Ctx, id)
	v0, _ := dk.Votes.Get(w.Ctx, id)
	supply := w.Supply().BigInt()
	vals := []uint64{0, 1, 2, 3}
	if rc.Quick() {
		vals = []uint64{0, 1, 3}
	}
	var triples [][3]uint64
	for _, a := range vals {
		for _, b := range vals {
			for _, cc := range vals {
				triples = append(triples, [3]uint64{a, b, cc})
			}
		}
	}
	// participation levels: group totals chosen so that a full group is 25%, and reporters' total scaled to land just below/at/above quorum
	type level struct {
		name string
		mul  uint64 // group total = mul * (vote sum) (0 => total equals sum => 25%)
	}
	levels := []level{{"full", 1}, {"half", 2}, {"tiny", 1000}}
	for _, team := range []int{0, 1, 2, 3} {
		for _, u := range triples {
			for _, r := range triples {
				for _, h := range triples {
					if !rc.Mine() {
						continue
					}
					if rc.TimeUp() {
						rc.Cap()
						return
					}
					for _, lv := range levels {
						for _, after := range []bool{false, true} {
							f := w.Fork()
							fdk := f.App.DisputeKeeper
							sum := func(t [3]uint64) uint64 { return t[0] + t[1] + t[2] }
							totTips, totRep := new(big.Int).SetUint64(sum(u)*lv.mul), new(big.Int).SetUint64(sum(r)*lv.mul)
							if sum(u) == 0 {
								totTips = big.NewInt(1000)
							}
							if sum(r) == 0 {
								totRep = big.NewInt(1000)
							}
							fdk.BlockInfo.Set(f.Ctx, d0.HashId, disputetypes.BlockInfo{TotalReporterPower: math.NewIntFromBigInt(totRep), TotalUserTips: math.NewIntFromBigInt(totTips)})
							// holders are scaled to the real supply: 1 unit = supply/ (12*mul) so that "3,3,3" can reach a full group at level full
							unit := new(big.Int).Div(supply, big.NewInt(int64(9*lv.mul)))
							hs := [3]uint64{}
							for i := range h {
								hs[i] = new(big.Int).Mul(unit, new(big.Int).SetUint64(h[i])).Uint64()
							}
							counts := disputetypes.StakeholderVoteCounts{
								Users:        disputetypes.VoteCounts{Support: u[0], Against: u[1], Invalid: u[2]},
								Reporters:    disputetypes.VoteCounts{Support: r[0], Against: r[1], Invalid: r[2]},
								Tokenholders: disputetypes.VoteCounts{Support: hs[0], Against: hs[1], Invalid: hs[2]},
							}
							anyVote := sum(u)+sum(r)+sum(h) > 0 || team > 0
							if team > 0 {
								ch := []disputetypes.VoteEnum{disputetypes.VoteEnum_VOTE_SUPPORT, disputetypes.VoteEnum_VOTE_AGAINST, disputetypes.VoteEnum_VOTE_INVALID}[team-1]
								fdk.Voter.Set(f.Ctx, collections.Join(id, f.Team.Acc.Bytes()), disputetypes.Voter{Vote: ch, VoterPower: math.NewInt(25000000), ReporterPower: math.ZeroInt(), TokenholderPower: math.ZeroInt()})
								switch team {
								case 1:
									counts.Team.Support = 1
								case 2:
									counts.Team.Against = 1
								case 3:
									counts.Team.Invalid = 1
								}
							} else if anyVote {
								fdk.Voter.Set(f.Ctx, collections.Join(id, c.Tipper.Acc.Bytes()), disputetypes.Voter{Vote: disputetypes.VoteEnum_VOTE_SUPPORT, VoterPower: math.OneInt(), ReporterPower: math.ZeroInt(), TokenholderPower: math.ZeroInt()})
							}
							fdk.VoteCountsByGroup.Set(f.Ctx, id, counts)
							if after {
								f.Ctx = f.Ctx.WithBlockTime(v0.VoteEnd.Add(time.Millisecond))
							}
							in := tallyIn{team: team, users: u, reps: r, holders: hs, totTips: totTips, totRep: totRep, supply: supply, afterEnd: after}
							acc, still := refTally(in)
							var terr error
							func() {
								defer func() {
									if p := recover(); p != nil {
										terr = fmt.Errorf("panic: %v", p)
									}
								}()
								terr = fdk.TallyVote(f.Ctx, id)
							}()
							rc.Count("executions", 1)
							rc.Count("states", 1)
							rc.Count("transitions", 1)
							got, _ := fdk.Votes.Get(f.Ctx, id)
							desc := fmt.Sprintf("team=%d users=%v/%s reporters=%v/%s holders=%v/%s afterEnd=%v", team, u, totTips, r, totRep, hs, supply, after)
							report := func(oracle, detail string) {
								rc.Violate(Violation{Oracle: oracle, Sig: "tally|" + oracle, Detail: detail + " [" + desc + "]", Scenario: "tally-enum", Trace: []string{desc}})
							}
							rc.Distinct("tally_outcomes", got.VoteResult.String())
							switch {
							case got.VoteResult == disputetypes.VoteResult_NO_TALLY:
								if !still && !(after && !anyVote) {
									report("undecided", fmt.Sprintf("no result recorded (error %v) although the formula decides %v", terr, keysOf(acc)))
								} else if after {
									report("undecided-after-deadline", fmt.Sprintf("no result after the voting period (error %v)", terr))
								}
							case !acc[got.VoteResult]:
								cls := "other"
								if sum(h) > 0 && got.VoteResult <= disputetypes.VoteResult_INVALID {
									// would the result be acceptable if token holders were ignored?
									in2 := in
									in2.holders = [3]uint64{}
									if a2, _ := refTally(in2); a2[got.VoteResult] {
										cls = "holders-ignored-at-quorum"
									}
								}
								report("wrong-result|"+cls, fmt.Sprintf("recorded %s, formula allows %v", got.VoteResult, keysOf(acc)))
							}
						}
					}
				}
			}
		}
	}
	rc.Sample(map[string]interface{}{"scenario": "tally-enum", "group_values": vals, "levels": []string{"full(=25%)", "half", "tiny"}, "team": "none/S/A/I", "timing": "before/after vote end"})
}

func keysOf(m map[disputetypes.VoteResult]bool) []string {
	var l []string
	for k := range m {
		l = append(l, k.String())
	}
	return l
}

// ---- (a) lifecycle / vote monitor ------------------------------------------------------

type DisputeMonitor struct{}

type dispPre struct {
	disputes map[uint64]disputetypes.Dispute
	votes    map[uint64]disputetypes.Vote
	voters   map[string]disputetypes.Voter
}

func snapDisputes(w *World) *dispPre {
	p := &dispPre{disputes: map[uint64]disputetypes.Dispute{}, votes: map[uint64]disputetypes.Vote{}, voters: map[string]disputetypes.Voter{}}
	for _, d := range w.Disputes() {
		p.disputes[d.DisputeId] = d
		if v, err := w.App.DisputeKeeper.Votes.Get(w.Ctx, d.DisputeId); err == nil {
			p.votes[d.DisputeId] = v
		}
	}
	_ = w.App.DisputeKeeper.Voter.Walk(w.Ctx, nil, func(k collections.Pair[uint64, []byte], v disputetypes.Voter) (bool, error) {
		p.voters[fmt.Sprintf("%d/%x", k.K1(), k.K2())] = v
		return false, nil
	})
	return p
}

func (DisputeMonitor) Pre(w *World) interface{} { return snapDisputes(w) }

var allowedEdge = map[[2]disputetypes.DisputeStatus]bool{
	{disputetypes.Prevote, disputetypes.Voting}: true, {disputetypes.Prevote, disputetypes.Failed}: true,
	{disputetypes.Voting, disputetypes.Resolved}: true, {disputetypes.Voting, disputetypes.Unresolved}: true,
	{disputetypes.Unresolved, disputetypes.Resolved}: true,
}

func (DisputeMonitor) Post(e *Explorer, before, w *World, pre interface{}, ev *Event, out Outcome) {
	if out.Kind == "tx-rej" || out.Kind == "halt" {
		return
	}
	old := pre.(*dispPre)
	now := snapDisputes(w)
	fail := func(oracle, detail string) {
		e.Violate(w, oracle, "dispute|"+oracle, fmt.Sprintf("%s (after %s)", detail, ev.Label))
	}
	dk := w.App.DisputeKeeper
	for id, nd := range now.disputes {
		od, existed := old.disputes[id]
		if !existed {
			e.RC.Count("disputes_created", 1)
			if nd.DisputeRound <= 1 {
				if nd.DisputeStatus != disputetypes.Prevote && nd.DisputeStatus != disputetypes.Voting {
					fail("bad-initial-status", fmt.Sprintf("new dispute %d starts in %s", id, nd.DisputeStatus))
				}
			} else {
				// a new round: previous id must have been unresolved and is now closed; the fee doubles
				if len(nd.PrevDisputeIds) < 2 {
					fail("round-links", fmt.Sprintf("round %d dispute %d does not list its previous ids", nd.DisputeRound, id))
					continue
				}
				prevID := nd.PrevDisputeIds[len(nd.PrevDisputeIds)-2]
				pd, ok := old.disputes[prevID]
				if !ok || pd.DisputeStatus != disputetypes.Unresolved {
					fail("round-from-bad-state", fmt.Sprintf("round %d opened from dispute %d in state %v", nd.DisputeRound, prevID, pd.DisputeStatus))
				}
				if cur := now.disputes[prevID]; cur.Open {
					fail("previous-round-not-closed", fmt.Sprintf("dispute %d still open after round %d started", prevID, nd.DisputeRound))
				}
				paid := nd.FeeTotal.Sub(pd.FeeTotal)
				five := nd.SlashAmount.QuoRaw(20)
				want := five.Mul(math.NewIntFromBigInt(new(big.Int).Lsh(big.NewInt(1), uint(nd.DisputeRound-1))))
				if want.GT(nd.SlashAmount) {
					want = nd.SlashAmount
				}
				if !paid.Equal(want) {
					fail("round-fee", fmt.Sprintf("round %d fee %s, want 5%%*2^%d = %s", nd.DisputeRound, paid, nd.DisputeRound-1, want))
				}
				if nd.DisputeStatus != disputetypes.Voting {
					fail("bad-initial-status", fmt.Sprintf("new round dispute %d starts in %s", id, nd.DisputeStatus))
				}
				e.RC.Count("dispute_rounds_opened", 1)
			}
			continue
		}
		if od.DisputeStatus != nd.DisputeStatus {
			e.RC.Distinct("status_edges", od.DisputeStatus.String()+"->"+nd.DisputeStatus.String())
			if !allowedEdge[[2]disputetypes.DisputeStatus{od.DisputeStatus, nd.DisputeStatus}] {
				fail("status-edge", fmt.Sprintf("dispute %d moved %s -> %s", id, od.DisputeStatus, nd.DisputeStatus))
			}
		}
		ov, hadVote := old.votes[id]
		nv := now.votes[id]
		// a round that has been superseded by a new round takes no further step of its own (no status change, no execution)
		superseded := false
		for id2, d2 := range old.disputes {
			if id2 > id && bytes.Equal(d2.HashId, od.HashId) {
				superseded = true
			}
		}
		if superseded && (od.DisputeStatus != nd.DisputeStatus || (hadVote && !ov.Executed && nv.Executed)) {
			fail("superseded-round-moved", fmt.Sprintf("dispute %d has a later round, yet it moved %s -> %s (executed %v -> %v)", id, od.DisputeStatus, nd.DisputeStatus, ov.Executed, nv.Executed))
		}
		if hadVote && ov.Executed && !nv.Executed {
			fail("executed-reset", fmt.Sprintf("dispute %d lost its executed flag", id))
		}
		if hadVote && ov.VoteResult != disputetypes.VoteResult_NO_TALLY && nv.VoteResult != ov.VoteResult {
			fail("result-changed", fmt.Sprintf("dispute %d result changed %s -> %s", id, ov.VoteResult, nv.VoteResult))
		}
		if hadVote && ov.VoteResult == disputetypes.VoteResult_NO_TALLY && nv.VoteResult != disputetypes.VoteResult_NO_TALLY {
			// a result was recorded in this transition: compare with the formula on the counters of the new state
			e.RC.Count("tallies_recorded", 1)
			cnt, _ := dk.VoteCountsByGroup.Get(w.Ctx, id)
			bi, err := before.App.DisputeKeeper.BlockInfo.Get(before.Ctx, od.HashId)
			if err != nil {
				continue
			}
			in := tallyIn{users: [3]uint64{cnt.Users.Support, cnt.Users.Against, cnt.Users.Invalid},
				reps:    [3]uint64{cnt.Reporters.Support, cnt.Reporters.Against, cnt.Reporters.Invalid},
				holders: [3]uint64{cnt.Tokenholders.Support, cnt.Tokenholders.Against, cnt.Tokenholders.Invalid},
				totTips: bi.TotalUserTips.BigInt(), totRep: bi.TotalReporterPower.BigInt(), supply: w.Supply().BigInt(), afterEnd: true}
			if tp, err := dk.Params.Get(w.Ctx); err == nil {
				if tv, err := dk.Voter.Get(w.Ctx, collections.Join(id, []byte(tp.TeamAddress))); err == nil {
					in.team = int(tv.Vote)
					if in.team < 1 || in.team > 3 {
						in.team = 3
					}
				}
			}
			acc, _ := refTally(in)
			nvoters := 0
			for k := range now.voters {
				if strings.HasPrefix(k, fmt.Sprintf("%d/", id)) {
					nvoters++
				}
			}
			if nvoters == 0 {
				acc[disputetypes.VoteResult_NO_QUORUM_MAJORITY_INVALID] = true
			}
			if !acc[nv.VoteResult] {
				cls := "other"
				in2 := in
				in2.holders = [3]uint64{}
				if a2, _ := refTally(in2); a2[nv.VoteResult] {
					cls = "holders-ignored-at-quorum"
				}
				fail("wrong-result|"+cls, fmt.Sprintf("dispute %d recorded %s, formula allows %v (counts %v, blockinfo %v)", id, nv.VoteResult, keysOf(acc), cnt, bi))
			}
		}
	}
	// votes: new Voter entries and group counters
	voting := map[string]bool{} // signers of vote messages in this transaction
	if ev.Msgs != nil {
		for _, m := range ev.Msgs(before) {
			if mv, ok := m.(*disputetypes.MsgVote); ok {
				if a, err := sdk.AccAddressFromBech32(mv.Voter); err == nil {
					voting[fmt.Sprintf("%x", a.Bytes())] = true
				}
			}
		}
	}
	for k, nvr := range now.voters {
		ovr, had := old.voters[k]
		if had {
			if ovr.Vote != nvr.Vote {
				fail("vote-changed", "a recorded vote changed its choice: "+k)
			}
			continue
		}
		var id uint64
		var addrHex string
		fmt.Sscanf(k, "%d/%s", &id, &addrHex)
		if !voting[addrHex] {
			// a voter record written by something else than a vote (ClaimReward marks the claim of a voter of an earlier
			// round under the final round's id): it must carry no weight
			e.RC.Count("voter_records_not_from_votes", 1)
			if nvr.VoterPower.IsPositive() || nvr.ReporterPower.IsPositive() || nvr.TokenholderPower.IsPositive() {
				fail("weight-without-vote", fmt.Sprintf("a voter record with weight %s appeared for %s on dispute %d without a vote message", nvr.VoterPower, addrHex, id))
			}
			continue
		}
		e.RC.Count("votes_recorded", 1)
		od, ok := old.disputes[id]
		if !ok {
			continue
		}
		ov := old.votes[id]
		if od.DisputeStatus != disputetypes.Voting || before.Time().After(ov.VoteEnd) {
			fail("vote-outside-window", fmt.Sprintf("vote accepted on dispute %d in state %s at %s (vote end %s)", id, od.DisputeStatus, before.Time(), ov.VoteEnd))
		}
		// recorded power vs reference
		var voter sdk.AccAddress
		fmt.Sscanf(addrHex, "%x", &voter)
		refRep, refTok, refTips, refTeam := refVoterPower(before, voter, id, od)
		wantTotal := refRep.Add(refTok).Add(refTips).Add(refTeam)
		if !nvr.ReporterPower.Equal(refRep) || !nvr.TokenholderPower.Equal(refTok) || !nvr.VoterPower.Equal(wantTotal) {
			fail("voter-power", fmt.Sprintf("voter %s on dispute %d recorded power total=%s reporter=%s holder=%s; reference total=%s reporter=%s holder=%s tips=%s team=%s",
				short(voter.String()), id, nvr.VoterPower, nvr.ReporterPower, nvr.TokenholderPower, wantTotal, refRep, refTok, refTips, refTeam))
		}
	}
	// group counters equal the sums of recorded per-voter powers
	for id := range now.disputes {
		cnt, err := dk.VoteCountsByGroup.Get(w.Ctx, id)
		if err != nil {
			continue
		}
		var rep, tok [3]*big.Int
		for i := range rep {
			rep[i], tok[i] = new(big.Int), new(big.Int)
		}
		for k, v := range now.voters {
			if !strings.HasPrefix(k, fmt.Sprintf("%d/", id)) {
				continue
			}
			i := int(v.Vote) - 1
			if i < 0 || i > 2 {
				i = 2
			}
			rep[i].Add(rep[i], v.ReporterPower.BigInt())
			tok[i].Add(tok[i], v.TokenholderPower.BigInt())
		}
		gotRep := [3]uint64{cnt.Reporters.Support, cnt.Reporters.Against, cnt.Reporters.Invalid}
		gotTok := [3]uint64{cnt.Tokenholders.Support, cnt.Tokenholders.Against, cnt.Tokenholders.Invalid}
		for i := 0; i < 3; i++ {
			if new(big.Int).SetUint64(gotRep[i]).Cmp(rep[i]) != 0 {
				cls := "mismatch"
				if gotRep[i] > 1<<63 {
					cls = "wrapped"
				}
				fail("reporter-counter|"+cls, fmt.Sprintf("dispute %d reporters counter[%d]=%d but recorded voter powers sum to %s", id, i, gotRep[i], rep[i]))
			}
			if new(big.Int).SetUint64(gotTok[i]).Cmp(tok[i]) != 0 {
				fail("holder-counter", fmt.Sprintf("dispute %d token-holder counter[%d]=%d but recorded voter powers sum to %s", id, i, gotTok[i], tok[i]))
			}
		}
	}
}

// refVoterPower recomputes, from the stores, what an address may vote with on dispute id (state before the vote).
func refVoterPower(w *World, voter sdk.AccAddress, id uint64, d disputetypes.Dispute) (rep, tok, tips, team math.Int) {
	rep, tok, tips, team = math.ZeroInt(), math.ZeroInt(), math.ZeroInt(), math.ZeroInt()
	block := d.BlockNumber
	if p, err := w.App.DisputeKeeper.Params.Get(w.Ctx); err == nil && bytes.Equal(p.TeamAddress, voter) {
		team = math.NewInt(25000000)
	}
	// tips: latest cumulative total at or before the dispute block
	_ = w.App.OracleKeeper.TipperTotal.Walk(w.Ctx, collections.NewPrefixedPairRange[[]byte, uint64](voter).EndInclusive(block), func(_ collections.Pair[[]byte, uint64], v math.Int) (bool, error) {
		tips = v
		return false, nil
	})
	// stake snapshot of the voter's reporter at or before the dispute block
	sel, err := w.App.ReporterKeeper.Selectors.Get(w.Ctx, voter)
	selfTokens := math.ZeroInt()
	if err == nil {
		snap, _ := w.App.ReporterKeeper.GetDelegationsAmount(w.Ctx, sel.Reporter, block)
		for _, o := range snap.TokenOrigins {
			if bytes.Equal(o.DelegatorAddress, voter) {
				selfTokens = selfTokens.Add(o.Amount)
			}
		}
		if bytes.Equal(sel.Reporter, voter) {
			total := math.ZeroInt()
			if !snap.Total.IsNil() {
				total = snap.Total
			}
			// minus the snapshot stake that selectors of this snapshot already voted with in this round
			_ = w.App.DisputeKeeper.Voter.Walk(w.Ctx, collections.NewPrefixedPairRange[uint64, []byte](id), func(k collections.Pair[uint64, []byte], ov disputetypes.Voter) (bool, error) {
				other := sdk.AccAddress(k.K2())
				if other.Equals(voter) {
					return false, nil
				}
				inSnap := math.ZeroInt()
				for _, o := range snap.TokenOrigins {
					if bytes.Equal(o.DelegatorAddress, other) {
						inSnap = inSnap.Add(o.Amount)
					}
				}
				if inSnap.IsPositive() && !ov.ReporterPower.IsNil() && ov.ReporterPower.IsPositive() {
					used := inSnap
					if ov.ReporterPower.LT(used) {
						used = ov.ReporterPower
					}
					total = total.Sub(used)
				}
				return false, nil
			})
			rep = total
		} else {
			rep = selfTokens
		}
	}
	tok = w.Bal(voter).Add(selfTokens)
	return
}

// ---- driver ------------------------------------------------------------------------------

func voteAlphabet(c *Cast) func(w *World) []Event {
	full := FullAlphabet(c)
	keep := func(l string) bool {
		return strings.HasPrefix(l, "Vote(") || l == "AddFee(Payer,last,rest)" || l == "Propose(Payer,R1rep,warning,full)" ||
			l == "Switch(S1->R2)" || l == "Send(Payer->Tipper,all)"
	}
	gaps := []time.Duration{time.Second, 24 * time.Hour, 48*time.Hour + time.Millisecond, 72*time.Hour + time.Millisecond}
	return func(w *World) []Event {
		var out []Event
		for _, ev := range full(w) {
			if keep(ev.Label) {
				out = append(out, ev)
			}
		}
		for _, g := range gaps {
			out = append(out, BlockEv(g))
		}
		return out
	}
}

func checkC12(rc *RunCtx) {
	if rc.Replay == nil || rc.Replay.Scenario == "tally-enum" {
		c12Tally(rc)
		if rc.Replay != nil {
			return
		}
	}
	mons := []Monitor{DisputeMonitor{}}
	depth := 4
	if !rc.Quick() {
		depth = 6
	}
	starts := []struct {
		name string
		prep []string
	}{
		{"vote-dfs-funded", []string{"Tip(cyc,1000)", "Submit(R1,cyc,std)", "Submit(R2,cyc,std200)", b1, b1, b1, "Propose(Payer,R1rep,warning,full)"}},
		{"vote-dfs-partial", []string{"Tip(cyc,1000)", "Submit(R1,cyc,std)", "Submit(R2,cyc,std200)", b1, b1, b1, "Propose(Payer,R1rep,warning,half)"}},
		{"vote-dfs-round2", []string{"Tip(cyc,1000)", "Submit(R1,cyc,std)", "Submit(R2,cyc,std200)", b1, b1, b1, "Propose(Payer,R1rep,warning,full)", "Vote(S2,against)", "Block(48h0m0.001s)", "Propose(Payer,R1rep,warning,full)"}},
		// three rounds without quorum, then the fourth is opened (the first round number at which 2^n and 2n part ways)
		{"vote-dfs-round4", []string{"Tip(cyc,1000)", "Submit(R1,cyc,std)", "Submit(R2,cyc,std200)", b1, b1, b1, "Propose(Payer,R1rep,warning,full)", "Vote(S2,against)", "Block(48h0m0.001s)",
			"Propose(Payer,R1rep,warning,full)", "Vote(S2,support)", "Block(48h0m0.001s)", "Propose(Payer,R1rep,warning,full)", "Vote(S2,against)", "Block(48h0m0.001s)", "Propose(Payer,R1rep,warning,full)"}},
	}
	for _, st := range starts {
		if rc.Replay != nil && rc.Replay.Scenario != st.name {
			continue
		}
		w := NewWorld(Config{})
		c := StdSetup(w, false)
		alpha := voteAlphabet(c)
		resolve := Resolver(nil, WithBlocks(FullAlphabet(c)))
		e := &Explorer{RC: rc, Scenario: st.name, Monitors: mons, Horizon: []time.Duration{48*time.Hour + time.Millisecond, 24*time.Hour + time.Millisecond, time.Second}}
		if rc.Replay != nil {
			e.ReplayTrace(w, rc.Replay.Trace, resolve)
			return
		}
		cur := w
		for _, l := range st.prep {
			ev, ok := resolve(cur, l)
			if !ok {
				panic("C12 prep: " + l)
			}
			e.quiet = rc.Worker != 0
			n, out := e.Step(cur, ev)
			e.quiet = false
			if out.Kind == "tx-rej" || out.Kind == "halt" {
				// the tree under test does not accept this prefix (it does on the pinned tree): the steps so far were
				// monitored, the rest of this start state is not explored and the fact is counted in the evidence
				rc.Distinct("prefixes_not_reachable", st.name+" at "+l+": "+NormErr(out.Err))
				cur = nil
				break
			}
			cur = n
		}
		if cur == nil {
			continue
		}
		for _, ev := range alpha(cur) {
			if !rc.Mine() {
				continue
			}
			n, out := e.Step(cur, ev)
			if out.Kind == "tx-rej" || out.Kind == "halt" {
				continue
			}
			d := depth - 1
			if st.name == "vote-dfs-round4" {
				d = 1 // the long prefix is the point (monitored step by step); only a shallow search follows it
			}
			e.DFS(n, alpha, d)
		}
		rc.Sample(map[string]interface{}{"scenario": st.name, "prefix": st.prep, "depth": depth, "alphabet": labels(alpha(cur))})
	}
	if rc.Replay == nil || strings.HasPrefix(rc.Replay.Scenario, "vote-dfs") == false {
		runSkeletons(rc, mons, kOf(rc), skDispute...)
	}
}

var _ = oracletypes.MicroReport{}
