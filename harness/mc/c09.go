//go:build verif

package mc

import (
	"fmt"
	"time"
)

// checkC09: reward split (see the Rule text in c_monitors.go).
func checkC09(rc *RunCtx) {
	mons := []Monitor{RewardMonitor{}}
	rates := []string{"0", "0.05", "0.5", "1", "1.5", "100", "-0.1"}
	topos := []string{"self-1val", "self-2val", "self+sel", "self+2sel-2val"}
	tips := []int64{1, 2, 3, 7, 1_000_001, 1_000_000_000_000_000}
	for _, rate := range rates {
		for _, topo := range topos {
			name := fmt.Sprintf("commission(%s,%s)", rate, topo)
			if rc.Replay != nil && rc.Replay.Scenario != name {
				continue
			}
			if rc.Replay == nil && !rc.Mine() {
				continue
			}
			w := NewWorld(Config{UserBalance: 3_000_000_000_000_000})
			c := StdSetup(w, true)
			A, X, Y := c.Payer, c.Tipper, w.Team // A: reporter under test; X, Y: its extra selectors
			must(w, "A stake", MsgDelegate(A.Acc, w.Vals[0], 70*TRB))
			if topo == "self-2val" || topo == "self+2sel-2val" {
				must(w, "A stake2", MsgDelegate(A.Acc, w.Vals[1], 30*TRB))
			}
			must(w, "A reporter", MsgCreateReporter(A.Acc, rate, TRB))
			if topo == "self+sel" || topo == "self+2sel-2val" {
				must(w, "X stake", MsgDelegate(X.Acc, w.Vals[0], 11*TRB))
				must(w, "X select", MsgSelect(X.Acc, A.Acc))
			}
			if topo == "self+2sel-2val" {
				must(w, "Y stake", MsgDelegate(Y.Acc, w.Vals[1], 7*TRB))
				must(w, "Y stake2", MsgDelegate(Y.Acc, w.Vals[2], 5*TRB))
				must(w, "Y select", MsgSelect(Y.Acc, A.Acc))
			}
			mustBlock(w, time.Second)
			w.Trace = nil
			e := &Explorer{RC: rc, Scenario: name, Monitors: mons}
			cur := w
			step := func(ev Event) {
				n, out := e.Step(cur, ev)
				if out.Kind == "halt" {
					return
				}
				cur = n
			}
			tipper := c.S2 // has liquid balance
			for _, amt := range tips {
				amt := amt
				step(ev1(fmt.Sprintf("Tip(modeq,%d)", amt), "tip", func(w *World) sdkMsg { return MsgTip(tipper.Acc, c.ModeQ, amt) }))
				step(ev1("Submit(A,modeq)", "submit", func(w *World) sdkMsg { return MsgSubmit(A.Acc, c.ModeQ, U256(5)) }))
				step(ev1("Submit(R2,modeq)", "submit", func(w *World) sdkMsg { return MsgSubmit(c.R2.Acc, c.ModeQ, U256(5)) }))
				step(ev1("Submit(A,cyc)", "submit", func(w *World) sdkMsg {
					if q := w.CycleQuery(); q != nil {
						return MsgSubmit(A.Acc, q, U256(5))
					}
					return nil
				}))
				step(ev1("Submit(R1,cyc)", "submit", func(w *World) sdkMsg {
					if q := w.CycleQuery(); q != nil {
						return MsgSubmit(c.R1.Acc, q, U256(6))
					}
					return nil
				}))
				step(BlockEv(time.Second))
				step(BlockEv(time.Hour))
				step(BlockEv(time.Second))
				step(BlockEv(time.Second))
			}
			rc.Count("executions", 1)
			rc.Count("states", 1)
			if rate == "0.5" && topo == "self+2sel-2val" {
				rc.Sample(map[string]interface{}{"scenario": name, "tips": tips, "events_per_tip": []string{"Tip(modeq,amt)", "Submit(A,modeq)", "Submit(R2,modeq)", "Submit(A,cyc)", "Submit(R1,cyc)", "Block(1s)", "Block(1h)", "Block(1s)", "Block(1s)"}})
			}
		}
	}
	if rc.Replay != nil && hasAnyPrefix(rc.Replay.Scenario, "commission(") {
		return
	}
	// a reporter paid for two cycle-list/deposit aggregates in one block, with different powers in the two
	for parity := 0; parity < 2; parity++ {
		name := fmt.Sprintf("tbr-two-aggregates(%d)", parity)
		if rc.Replay != nil && rc.Replay.Scenario != name {
			continue
		}
		if rc.Replay == nil && !rc.Mine() {
			continue
		}
		w := NewWorld(Config{})
		c := StdSetup(w, true)
		for i := 0; i < parity; i++ {
			mustBlock(w, time.Second)
		}
		val := DepositValue(c.Payer.Acc.String(), bigMul(5_000_000, 1e12), bigMul(1_000, 1e12))
		must(w, "dep RV1", MsgSubmit(c.RV1.Acc, c.Dep1, val))
		must(w, "dep RV2", MsgSubmit(c.RV2.Acc, c.Dep1, val))
		closeAt := w.Height() + 2000
		mustBlock(w, time.Second)
		must(w, "RV1 more stake", MsgDelegate(c.RV1.Acc, w.Vals[0], 200*TRB))
		for w.Height() < closeAt-1 {
			mustBlock(w, time.Second)
		}
		w.Trace = nil
		e := &Explorer{RC: rc, Scenario: name, Monitors: mons}
		cur := w
		for i := 0; i < 3; i++ {
			n, _ := e.Step(cur, ev1("Submit(RV1,cyc)", "submit", func(w *World) sdkMsg {
				if q := w.CycleQuery(); q != nil {
					return MsgSubmit(c.RV1.Acc, q, U256(5))
				}
				return nil
			}))
			cur = n
			n, _ = e.Step(cur, ev1("Submit(R1,cyc)", "submit", func(w *World) sdkMsg {
				if q := w.CycleQuery(); q != nil {
					return MsgSubmit(c.R1.Acc, q, U256(6))
				}
				return nil
			}))
			cur = n
			before := len(cur.Aggregates())
			n, out := e.Step(cur, BlockEv(time.Second))
			if out.Kind == "halt" {
				break
			}
			cur = n
			if len(cur.Aggregates())-before >= 2 {
				rc.Count("blocks_with_two_cycle_aggregates", 1)
			}
		}
		rc.Count("executions", 1)
	}
	depth := 4
	if !rc.Quick() {
		depth = 6
	}
	focusedDFS(rc, "reward-dfs", Config{}, true, nil, func(l string) bool {
		return hasAnyPrefix(l, "Tip(cyc", "Tip(modeq,1)", "Tip(modeq,50)", "Tip(modeq,1000001)", "Submit(R1,cyc,std)", "Submit(R2,cyc,std200)", "Submit(R1,modeq,std)", "Submit(R2,modeq,std200)",
			"Switch(S1->R2)", "Undelegate(S1,V1,all)", "Delegate(S1,V2,5)", "WithdrawTip(R2,V1)")
	}, []time.Duration{time.Second, time.Millisecond}, mons, depth, []time.Duration{time.Second, time.Second, time.Second})
	runSkeletons(rc, mons, kOf(rc), skOracle...)
}
