//go:build verif

package mc

import (
	"encoding/hex"
	"fmt"
	"math/big"
	"strings"
	"time"

	bridgetypes "github.com/tellor-io/layer/x/bridge/types"
	disputetypes "github.com/tellor-io/layer/x/dispute/types"
	oracletypes "github.com/tellor-io/layer/x/oracle/types"

	"cosmossdk.io/math"

	sdk "github.com/cosmos/cosmos-sdk/types"
	authtypes "github.com/cosmos/cosmos-sdk/x/auth/types"
)

// SupplyMonitor is the C03 shadow ledger: the supply delta of every transition
// must be exactly what the statement allows for that kind of transition.
type SupplyMonitor struct{}

type supplyPre struct {
	supply      math.Int
	initialized bool
	prev        *time.Time
	disputeBal  math.Int
	burnable    map[uint64]math.Int // dispute id -> BurnAmount of not-yet-executed votes
	msgs        []sdk.Msg
}

const dailyRate = 146940000
const msPerDay = 86400000

func (SupplyMonitor) Pre(w *World) interface{} {
	p := &supplyPre{supply: w.Supply(), disputeBal: w.ModBal("dispute"), burnable: map[uint64]math.Int{}}
	if m, err := w.App.MintKeeper.Minter.Get(w.Ctx); err == nil {
		p.initialized = m.Initialized
		p.prev = m.PreviousBlockTime
	}
	for _, d := range w.Disputes() {
		v, err := w.App.DisputeKeeper.Votes.Get(w.Ctx, d.DisputeId)
		if err == nil && !v.Executed {
			p.burnable[d.DisputeId] = d.BurnAmount
		}
	}
	return p
}

// refAmountTip decodes (address,string,uint256 amount,uint256 tip) independently of the keeper.
func refAmountTip(valueHex string) (amount, tip *big.Int, ok bool) {
	v := strings.TrimPrefix(strings.TrimPrefix(valueHex, "0x"), "0X")
	bz, err := hex.DecodeString(v)
	if err != nil || len(bz) < 128 {
		return nil, nil, false
	}
	return new(big.Int).SetBytes(bz[64:96]), new(big.Int).SetBytes(bz[96:128]), true
}

func (SupplyMonitor) Post(e *Explorer, before, w *World, pre interface{}, ev *Event, out Outcome) {
	p := pre.(*supplyPre)
	delta := w.Supply().Sub(p.supply)
	fail := func(oracle, detail string) {
		e.Violate(w, oracle, "supply|"+oracle+"|"+ev.Tag, fmt.Sprintf("%s (event %s, Δsupply=%s)", detail, ev.Label, delta))
	}
	if sum := w.SumBalances(); !sum.Equal(w.Supply()) {
		fail("sum-of-balances", fmt.Sprintf("Σ balances %s != recorded supply %s", sum, w.Supply()))
	}
	switch out.Kind {
	case "tx-rej":
		if !delta.IsZero() {
			fail("rejected-tx-changed-supply", "a rejected transaction changed total supply")
		}
	case "tx-ok":
		var msgs []sdk.Msg
		if ev.Msgs != nil {
			msgs = ev.Msgs(before)
		}
		lo, hi := math.ZeroInt(), math.ZeroInt() // allowed interval for Δ
		newlyClaimed := map[uint64]bool{}
		for _, m := range msgs {
			switch x := m.(type) {
			case *oracletypes.MsgTip:
				b := x.Amount.Amount.MulRaw(2).QuoRaw(100).Neg()
				lo, hi = lo.Add(b), hi.Add(b)
			case *bridgetypes.MsgWithdrawTokens:
				lo, hi = lo.Sub(x.Amount.Amount), hi.Sub(x.Amount.Amount)
			case *bridgetypes.MsgClaimDepositsRequest:
				for i, id := range x.DepositIds {
					if i >= len(x.Indices) {
						break
					}
					if before.SupplyClaimed[id] || newlyClaimed[id] {
						continue // a deposit adds its amount to the supply once
					}
					qid, _ := before.App.BridgeKeeper.GetDepositQueryId(id)
					agg, _, err := before.App.OracleKeeper.GetAggregateByIndex(before.Ctx, qid, x.Indices[i])
					if err != nil || agg == nil {
						continue
					}
					if amt, _, ok := refAmountTip(agg.AggregateValue); ok {
						a := math.NewIntFromBigInt(new(big.Int).Div(amt, big.NewInt(1e12)))
						lo, hi = lo.Add(a), hi.Add(a)
						newlyClaimed[id] = true
					}
				}
			case *disputetypes.MsgWithdrawFeeRefund:
				lo = lo.SubRaw(2) // accumulated sub-unit dust may be burned (at most 2 whole units per claim)
			}
		}
		if !hi.IsZero() || !lo.IsZero() {
			e.RC.Count("supply_nonzero_tx_expectations", 1)
			e.RC.Distinct("supply_tx_delta", delta.String())
		}
		if delta.LT(lo) || delta.GT(hi) {
			fail("tx-supply-delta", fmt.Sprintf("accepted tx changed supply by %s, statement allows [%s,%s]", delta, lo, hi))
		}
		if len(newlyClaimed) > 0 {
			nc := map[uint64]bool{}
			for k := range before.SupplyClaimed {
				nc[k] = true
			}
			for k := range newlyClaimed {
				nc[k] = true
			}
			w.SupplyClaimed = nc
		}
	case "block":
		// independent mint clock (kept by World.Block / World.Tx, not read from the chain's minter): minting starts
		// with the first block that begins after governance started it; that block only records the reference time
		mint := math.ZeroInt()
		if w.LB.MintRefBefore != nil {
			ms := w.Time().Sub(*w.LB.MintRefBefore).Milliseconds()
			mint = math.NewInt(dailyRate).MulRaw(ms).QuoRaw(msPerDay)
		}
		if mint.IsPositive() {
			e.RC.Count("supply_mint_blocks", 1)
			e.RC.Distinct("supply_mint_amount", mint.String())
		}
		burned := mint.Sub(delta) // what left the supply apart from minting
		if burned.IsPositive() {
			e.RC.Count("supply_dispute_burn_blocks", 1)
		}
		maxBurn := math.ZeroInt()
		for id, b := range p.burnable {
			if v, err := w.App.DisputeKeeper.Votes.Get(w.Ctx, id); err == nil && v.Executed {
				maxBurn = maxBurn.Add(b)
			}
		}
		if burned.IsNegative() {
			fail("block-minted-too-much", fmt.Sprintf("block minted %s more than rate*elapsed = %s", burned.Neg(), mint))
		} else if burned.GT(maxBurn) {
			fail("block-burn", fmt.Sprintf("block removed %s from supply beyond minting; dispute burns executed in it allow at most %s", burned, maxBurn))
		}
		// what the bank recorded as received by the two pools during BeginBlock (nothing else pays them there)
		dTBR := w.ReceivedInBegin(authtypes.NewModuleAddress("time_based_rewards"))
		dFee := w.ReceivedInBegin(authtypes.NewModuleAddress(authtypes.FeeCollectorName))
		q := mint.QuoRaw(4)
		if !dFee.Equal(q) || !dTBR.Equal(mint.Sub(q)) {
			fail("mint-split", fmt.Sprintf("minted %s: fee pool got %s (want %s), reward pool got %s (want %s)", mint, dFee, q, dTBR, mint.Sub(q)))
		}
		// cumulative bound
		if p.initialized && !w.MintInitAt.IsZero() {
			if w.Minted.IsNil() {
				w.Minted, w.MintSince = math.ZeroInt(), w.MintInitAt
			}
			w.Minted = w.Minted.Add(dTBR).Add(dFee)
			cap := math.NewInt(dailyRate).MulRaw(w.Time().Sub(w.MintSince).Milliseconds()).QuoRaw(msPerDay)
			if w.Minted.GT(cap) {
				fail("cumulative-inflation", fmt.Sprintf("minted %s since %s exceeds rate*elapsed %s", w.Minted, w.MintSince, cap))
			}
		}
	}
}
