//go:build verif

package mc

// Independent reference for what the EVM contracts compute: a from-scratch
// keccak-256, a from-scratch ABI encoder (head/tail rules of the Solidity ABI
// specification) and an extractor that reads the struct layouts, constants and
// the argument lists of the abi.encode(...) calls out of the contract sources,
// so that the reference follows the contracts, not the chain code.

import (
	"encoding/hex"
	"fmt"
	"math/big"
	"math/bits"
	"os"
	"regexp"
	"strings"
)

// ---- keccak-256 (FIPS-202 permutation, original Keccak padding 0x01) ----------

var keccakRC = [24]uint64{
	0x0000000000000001, 0x0000000000008082, 0x800000000000808A, 0x8000000080008000, 0x000000000000808B, 0x0000000080000001,
	0x8000000080008081, 0x8000000000008009, 0x000000000000008A, 0x0000000000000088, 0x0000000080008009, 0x000000008000000A,
	0x000000008000808B, 0x800000000000008B, 0x8000000000008089, 0x8000000000008003, 0x8000000000008002, 0x8000000000000080,
	0x000000000000800A, 0x800000008000000A, 0x8000000080008081, 0x8000000000008080, 0x0000000080000001, 0x8000000080008008,
}
var keccakRot = [25]int{0, 1, 62, 28, 27, 36, 44, 6, 55, 20, 3, 10, 43, 25, 39, 41, 45, 15, 21, 8, 18, 2, 61, 56, 14}

func keccakF(a *[25]uint64) {
	for r := 0; r < 24; r++ {
		var c [5]uint64
		for x := 0; x < 5; x++ {
			c[x] = a[x] ^ a[x+5] ^ a[x+10] ^ a[x+15] ^ a[x+20]
		}
		for x := 0; x < 5; x++ {
			d := c[(x+4)%5] ^ bits.RotateLeft64(c[(x+1)%5], 1)
			for y := 0; y < 25; y += 5 {
				a[y+x] ^= d
			}
		}
		var b [25]uint64
		for x := 0; x < 5; x++ {
			for y := 0; y < 5; y++ {
				b[y+5*((2*x+3*y)%5)] = bits.RotateLeft64(a[x+5*y], keccakRot[x+5*y])
			}
		}
		for y := 0; y < 25; y += 5 {
			for x := 0; x < 5; x++ {
				a[y+x] = b[y+x] ^ (^b[y+(x+1)%5] & b[y+(x+2)%5])
			}
		}
		a[0] ^= keccakRC[r]
	}
}

// RefKeccak256 is an independent keccak-256.
func RefKeccak256(data []byte) []byte {
	const rate = 136
	var st [25]uint64
	p := append(append([]byte(nil), data...), 0x01)
	for len(p)%rate != 0 {
		p = append(p, 0)
	}
	p[len(p)-1] |= 0x80
	for off := 0; off < len(p); off += rate {
		for i := 0; i < rate/8; i++ {
			var v uint64
			for j := 0; j < 8; j++ {
				v |= uint64(p[off+8*i+j]) << (8 * j)
			}
			st[i] ^= v
		}
		keccakF(&st)
	}
	out := make([]byte, 32)
	for i := 0; i < 4; i++ {
		for j := 0; j < 8; j++ {
			out[8*i+j] = byte(st[i] >> (8 * j))
		}
	}
	return out
}

// ---- ABI encoder ---------------------------------------------------------------

// AbiVal is a value with its Solidity type: "uint256","uint64","bytes32","address","bool","string","bytes",
// "tuple" (Fields) or "T[]" (Elems, ElemType).
type AbiVal struct {
	Type   string
	Int    *big.Int // uintN
	Bytes  []byte   // bytes32 / address (20) / bytes / string
	Bool   bool
	Fields []AbiVal // tuple
	Elems  []AbiVal // array
}

func word(b []byte) []byte { // left-pad to 32
	out := make([]byte, 32)
	copy(out[32-len(b):], b)
	return out
}

func isDynamic(v AbiVal) bool {
	switch {
	case v.Type == "string" || v.Type == "bytes" || strings.HasSuffix(v.Type, "[]"):
		return true
	case v.Type == "tuple":
		for _, f := range v.Fields {
			if isDynamic(f) {
				return true
			}
		}
	}
	return false
}

func headSize(v AbiVal) int {
	if isDynamic(v) {
		return 32
	}
	if v.Type == "tuple" {
		n := 0
		for _, f := range v.Fields {
			n += headSize(f)
		}
		return n
	}
	return 32
}

// AbiEncode implements abi.encode(vals...).
func AbiEncode(vals ...AbiVal) []byte {
	headLen := 0
	for _, v := range vals {
		headLen += headSize(v)
	}
	var head, tail []byte
	for _, v := range vals {
		if isDynamic(v) {
			head = append(head, word(big.NewInt(int64(headLen+len(tail))).Bytes())...)
			tail = append(tail, encodeOne(v)...)
		} else {
			head = append(head, encodeOne(v)...)
		}
	}
	return append(head, tail...)
}

func encodeOne(v AbiVal) []byte {
	switch {
	case v.Type == "bool":
		if v.Bool {
			return word([]byte{1})
		}
		return word(nil)
	case strings.HasPrefix(v.Type, "uint"):
		return word(v.Int.Bytes())
	case v.Type == "address":
		return word(v.Bytes)
	case v.Type == "bytes32":
		out := make([]byte, 32)
		copy(out, v.Bytes) // right-padded
		return out
	case v.Type == "string" || v.Type == "bytes":
		out := word(big.NewInt(int64(len(v.Bytes))).Bytes())
		out = append(out, v.Bytes...)
		for len(out)%32 != 0 {
			out = append(out, 0)
		}
		return out
	case v.Type == "tuple":
		return AbiEncode(v.Fields...)
	case strings.HasSuffix(v.Type, "[]"):
		out := word(big.NewInt(int64(len(v.Elems))).Bytes())
		return append(out, AbiEncode(v.Elems...)...)
	}
	panic("abi: unsupported type " + v.Type)
}

// ---- contract source extractor ------------------------------------------------------

// SolModel is what the reference needs to know about the contracts.
type SolModel struct {
	Structs   map[string][][2]string // struct -> [(type, name)]
	Constants map[string][]byte      // bytes32 constants
	// argument lists of the abi.encode calls, as (type, expression)
	CheckpointArgs [][2]string // _domainSeparateValidatorSetHash
	DigestArgs     [][2]string // verifyOracleData data digest
	ValsetHashArg  string      // type of the single argument of keccak256(abi.encode(_currentValidatorSet))
	WithdrawQuery  [][2]string // outer abi.encode of TokenBridge.withdrawFromLayer
	WithdrawInner  [][2]string // inner abi.encode
	WithdrawDecode []string    // abi.decode(value, (...)) types
	SigPrehash     string      // "sha256" if _verifySig hashes the digest with sha256 before ecrecover
}

func splitTop(s string) []string {
	var out []string
	depth, start := 0, 0
	for i, c := range s {
		switch c {
		case '(':
			depth++
		case ')':
			depth--
		case ',':
			if depth == 0 {
				out = append(out, strings.TrimSpace(s[start:i]))
				start = i + 1
			}
		}
	}
	if t := strings.TrimSpace(s[start:]); t != "" {
		out = append(out, t)
	}
	return out
}

// callArgs returns the text between the parentheses that follow the first occurrence of marker at/after from.
func callArgs(src string, marker string, from int) (string, int) {
	i := strings.Index(src[from:], marker)
	if i < 0 {
		return "", -1
	}
	i += from + len(marker)
	depth := 1
	for j := i; j < len(src); j++ {
		switch src[j] {
		case '(':
			depth++
		case ')':
			depth--
			if depth == 0 {
				return src[i:j], j
			}
		}
	}
	return "", -1
}

func funcBody(src, name string) (params string, body string) {
	re := regexp.MustCompile(`function\s+` + name + `\s*\(`)
	loc := re.FindStringIndex(src)
	if loc == nil {
		panic("sol: function " + name + " not found")
	}
	params, end := callArgs(src, "(", loc[1]-1)
	i := strings.Index(src[end:], "{") + end
	depth := 0
	for j := i; j < len(src); j++ {
		switch src[j] {
		case '{':
			depth++
		case '}':
			depth--
			if depth == 0 {
				return params, src[i : j+1]
			}
		}
	}
	panic("sol: unbalanced body of " + name)
}

func stripComments(s string) string {
	s = regexp.MustCompile(`(?s)/\*.*?\*/`).ReplaceAllString(s, "")
	return regexp.MustCompile(`//[^\n]*`).ReplaceAllString(s, "")
}

// LoadSolModel parses the three contract files.
func LoadSolModel(dir string) *SolModel {
	rd := func(p string) string {
		bz, err := os.ReadFile(dir + "/" + p)
		if err != nil {
			panic(err)
		}
		return stripComments(string(bz))
	}
	blob, consts, tb := rd("bridge/BlobstreamO.sol"), rd("bridge/Constants.sol"), rd("token-bridge/TokenBridge.sol")
	m := &SolModel{Structs: map[string][][2]string{}, Constants: map[string][]byte{}}
	for _, mm := range regexp.MustCompile(`(?s)struct\s+(\w+)\s*\{(.*?)\}`).FindAllStringSubmatch(blob, -1) {
		for _, f := range strings.Split(mm[2], ";") {
			fs := strings.Fields(f)
			if len(fs) == 2 {
				m.Structs[mm[1]] = append(m.Structs[mm[1]], [2]string{fs[0], fs[1]})
			}
		}
	}
	for _, mm := range regexp.MustCompile(`(?s)bytes32\s+constant\s+(\w+)\s*=\s*0x([0-9a-fA-F]+)\s*;`).FindAllStringSubmatch(consts, -1) {
		bz, _ := hex.DecodeString(mm[2])
		m.Constants[mm[1]] = bz
	}
	storage := map[string]string{}
	for _, mm := range regexp.MustCompile(`(?m)^\s*(bytes32|uint256|uint64|address|bool)\s+public\s+(\w+)\s*;`).FindAllStringSubmatch(blob, -1) {
		storage[mm[2]] = mm[1]
	}
	paramTypes := func(params string) map[string]string {
		out := map[string]string{}
		for _, p := range splitTop(params) {
			fs := strings.Fields(p)
			if len(fs) >= 2 {
				out[fs[len(fs)-1]] = fs[0]
			}
		}
		return out
	}
	var typeOf func(expr string, params map[string]string) string
	typeOf = func(expr string, params map[string]string) string {
		expr = strings.TrimSpace(expr)
		switch {
		case strings.HasPrefix(expr, `"`):
			return "string"
		case expr == "true" || expr == "false":
			return "bool"
		case strings.HasPrefix(expr, "abi.encode("):
			return "bytes"
		}
		if _, ok := m.Constants[expr]; ok {
			return "bytes32"
		}
		if t, ok := storage[expr]; ok {
			return t
		}
		parts := strings.Split(expr, ".")
		t, ok := params[parts[0]]
		if !ok {
			panic("sol: cannot type expression " + expr)
		}
		for _, fld := range parts[1:] {
			found := false
			for _, f := range m.Structs[t] {
				if f[1] == fld {
					t, found = f[0], true
				}
			}
			if !found {
				panic("sol: no field " + fld + " in " + t)
			}
		}
		return t
	}
	typed := func(args string, params map[string]string) [][2]string {
		var out [][2]string
		for _, a := range splitTop(args) {
			out = append(out, [2]string{typeOf(a, params), a})
		}
		return out
	}
	// checkpoint
	p, body := funcBody(blob, "_domainSeparateValidatorSetHash")
	args, _ := callArgs(body, "abi.encode(", 0)
	m.CheckpointArgs = typed(args, paramTypes(p))
	// data digest + valset hash
	p, body = funcBody(blob, "verifyOracleData")
	pt := paramTypes(p)
	a1, end := callArgs(body, "keccak256(abi.encode(", 0)
	m.ValsetHashArg = typeOf(a1, pt)
	i := strings.Index(body[end:], "_dataDigest") + end
	args, _ = callArgs(body, "abi.encode(", i)
	m.DigestArgs = typed(args, pt)
	// signature convention
	_, body = funcBody(blob, "_verifySig")
	if regexp.MustCompile(`_digest\s*=\s*sha256\(abi\.encodePacked\(_digest\)\)`).MatchString(body) && strings.Contains(body, "ecrecover(_digest") {
		m.SigPrehash = "sha256"
	}
	// token bridge
	p, body = funcBody(tb, "withdrawFromLayer")
	pt = paramTypes(p)
	args, _ = callArgs(body, "keccak256(abi.encode(", 0)
	m.WithdrawQuery = typed(args, pt)
	for _, a := range m.WithdrawQuery {
		if strings.HasPrefix(a[1], "abi.encode(") {
			in, _ := callArgs(a[1], "abi.encode(", 0)
			m.WithdrawInner = typed(in, pt)
		}
	}
	dec, _ := callArgs(body, "abi.decode(", 0)
	dp := splitTop(dec)
	if len(dp) == 2 {
		m.WithdrawDecode = splitTop(strings.Trim(dp[1], "()"))
	}
	return m
}

func (m *SolModel) String() string {
	return fmt.Sprintf("structs=%v checkpoint=%v digest=%v valset=%s withdrawQuery=%v inner=%v decode=%v sig=%s",
		m.Structs, m.CheckpointArgs, m.DigestArgs, m.ValsetHashArg, m.WithdrawQuery, m.WithdrawInner, m.WithdrawDecode, m.SigPrehash)
}
