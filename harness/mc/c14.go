//go:build verif

package mc

import (
	"bytes"
	"encoding/hex"
	"fmt"
	"math/big"
	"strings"
	"time"

	"github.com/ethereum/go-ethereum/accounts/abi"
	bridgetypes "github.com/tellor-io/layer/x/bridge/types"
	oracletypes "github.com/tellor-io/layer/x/oracle/types"

	"cosmossdk.io/math"

	sdk "github.com/cosmos/cosmos-sdk/types"
)

func init() {
	Register("C14", &CheckInfo{
		Fn: checkC14, Level: "model_checking",
		Rule: "bridge monitor on every accepted ClaimDeposits / WithdrawTokens: a claim is accepted only for an unflagged aggregate of that deposit's query, at least 12h old, whose power reached floor(2/3) of the validator set in force before its timestamp, at most once per id over the whole history (independent claimed-set), minting exactly amount/1e12 (independent ABI decode) with tip/1e12 to the claimer and the rest to the decoded recipient; a withdrawal burns exactly the amount from the sender, takes id previous+1 and publishes one aggregate under keccak(abi('TRBBridge',abi(false,id))) whose value decodes to (recipient,sender,amount); stored withdrawal aggregates never change; evaluated on (a) the product value encodings {well-formed, tip 0, tip=amount, tip>amount, amount not multiple of 1e12, amount<1e12, amount 2^63*1e12, 2^64*1e12, (2^64+5)*1e12, truncated ABI, bad bech32, 0x-prefixed} x power {threshold-1, threshold, threshold+1} x age {12h-1ms, 12h, 12h+1ms} x {unflagged, flagged} x {valset unchanged, validator power raised / lowered by > 5% after the report} with claims {single, repeated, batched [id,id], wrong index, unknown id}, (b) an exhaustive DFS depth 4 (quick) / 5 (thorough) from a real end-to-end deposit (2000-block window, >2/3 reporters) over claims, disputes flagging the aggregate, withdrawals with recipients of 0/19/20/40 bytes and amounts 1/1e6/balance+1, delegations and block gaps, (c) all <=k-deviation histories around the bridge skeleton",
		QuickBudget: 10 * time.Minute, ThoroughBudget: 15 * time.Minute,
	})
}

type BridgeMonitor struct{}

type bridgePre struct {
	supply math.Int
	bals   map[string]math.Int
	wdID   uint64
	aggs   []AggKV
}

func (BridgeMonitor) Pre(w *World) interface{} {
	p := &bridgePre{supply: w.Supply(), bals: map[string]math.Int{}, aggs: w.Aggregates()}
	for _, a := range w.actors() {
		p.bals[a.String()] = w.Bal(a)
	}
	if id, err := w.App.BridgeKeeper.WithdrawalId.Get(w.Ctx); err == nil {
		p.wdID = id.Id
	}
	return p
}

// refDecodeDeposit decodes (address, string, uint256, uint256) independently of the keeper.
func refDecodeDeposit(valueHex string) (recipient string, amount, tip *big.Int, ok bool) {
	v := strings.TrimPrefix(strings.TrimPrefix(valueHex, "0x"), "0X")
	bz, err := hex.DecodeString(v)
	if err != nil {
		return "", nil, nil, false
	}
	out, err := abi.Arguments{{Type: mustType("address")}, {Type: mustType("string")}, {Type: mustType("uint256")}, {Type: mustType("uint256")}}.Unpack(bz)
	if err != nil || len(out) != 4 {
		return "", nil, nil, false
	}
	return out[1].(string), out[2].(*big.Int), out[3].(*big.Int), true
}

// refThresholdBefore recomputes floor(2/3 total power) of the latest stored validator set strictly before ts.
func refThresholdBefore(w *World, ts uint64) (uint64, bool) {
	var best uint64
	found := false
	_ = w.App.BridgeKeeper.BridgeValsetByTimestampMap.Walk(w.Ctx, nil, func(k uint64, _ bridgetypes.BridgeValidatorSet) (bool, error) {
		if k < ts && (!found || k > best) {
			best, found = k, true
		}
		return false, nil
	})
	if !found {
		return 0, false
	}
	vs, _ := w.App.BridgeKeeper.BridgeValsetByTimestampMap.Get(w.Ctx, best)
	tot := new(big.Int)
	for _, v := range vs.BridgeValidatorSet {
		tot.Add(tot, new(big.Int).SetUint64(v.Power))
	}
	return new(big.Int).Div(new(big.Int).Mul(tot, big.NewInt(2)), big.NewInt(3)).Uint64(), true
}

func (BridgeMonitor) Post(e *Explorer, before, w *World, pre interface{}, ev *Event, out Outcome) {
	if out.Kind == "halt" || out.Kind == "tx-rej" {
		return
	}
	p := pre.(*bridgePre)
	fail := func(oracle, detail string) {
		e.Violate(w, oracle, "bridge|"+oracle, fmt.Sprintf("%s (after %s)", detail, ev.Label))
	}
	// stored withdrawal aggregates (no reporters) never change
	idx := map[string]AggKV{}
	for _, a := range w.Aggregates() {
		idx[fmt.Sprintf("%x/%d", a.QueryId, a.Ts)] = a
	}
	for _, a := range p.aggs {
		if a.Agg.AggregateReporter != "" {
			continue
		}
		if n, ok := idx[fmt.Sprintf("%x/%d", a.QueryId, a.Ts)]; !ok || n.Agg.String() != a.Agg.String() {
			fail("withdrawal-aggregate-changed", fmt.Sprintf("the aggregate of a withdrawal query %x.. was altered or removed", a.QueryId[:4]))
		}
	}
	if out.Kind != "tx-ok" || ev.Msgs == nil {
		return
	}
	if w.Claimed == nil {
		w.Claimed = map[uint64]bool{}
	}
	msgs := ev.Msgs(before)
	if len(msgs) != 1 {
		return
	}
	switch x := msgs[0].(type) {
	case *oracletypes.MsgSubmitValue:
		// no report is ever accepted on a withdrawal query (tipped or not): its aggregates are the bridge's own
		for id := uint64(0); id <= 3; id++ {
			if bytes.Equal(x.QueryData, BridgeQuery(false, id)) {
				fail("withdrawal-query-reported", fmt.Sprintf("a report by %s on the withdrawal query of id %d was accepted", short(x.Creator), id))
			}
		}
	case *bridgetypes.MsgClaimDepositsRequest:
		claimer := sdk.MustAccAddressFromBech32(x.Creator)
		wantMint := new(big.Int)
		credit := map[string]*big.Int{}
		addc := func(a string, v *big.Int) {
			if credit[a] == nil {
				credit[a] = new(big.Int)
			}
			credit[a].Add(credit[a], v)
		}
		seen := map[uint64]bool{}
		for i, id := range x.DepositIds {
			e.RC.Count("accepted_claims", 1)
			qid := QID(BridgeQuery(true, id))
			var agg *AggKV
			n := uint64(0)
			for _, a := range p.aggs {
				if bytes.Equal(a.QueryId, qid) {
					if n == x.Indices[i] {
						a := a
						agg = &a
					}
					n++
				}
			}
			if agg == nil {
				fail("claim-without-aggregate", fmt.Sprintf("deposit %d claimed at index %d but the deposit query has no such aggregate", id, x.Indices[i]))
				continue
			}
			if w.Claimed[id] || seen[id] {
				fail("claimed-twice", fmt.Sprintf("deposit %d was turned into tokens a second time", id))
			}
			seen[id] = true
			if agg.Agg.Flagged {
				fail("claim-flagged", fmt.Sprintf("deposit %d claimed from a flagged aggregate", id))
			}
			if age := before.Time().Sub(time.UnixMilli(int64(agg.Ts))); age < 12*time.Hour {
				fail("claim-too-young", fmt.Sprintf("deposit %d claimed from an aggregate only %s old", id, age))
			}
			thr, ok := refThresholdBefore(before, agg.Ts)
			if !ok {
				fail("claim-without-valset", fmt.Sprintf("deposit %d claimed although no validator set precedes its aggregate", id))
			} else if agg.Agg.ReporterPower < thr {
				fail("claim-below-threshold", fmt.Sprintf("deposit %d claimed with reporter power %d, the 2/3 threshold at report time was %d", id, agg.Agg.ReporterPower, thr))
			}
			rcpt, amt, tip, ok := refDecodeDeposit(agg.Agg.AggregateValue)
			if !ok {
				fail("claim-undecodable", fmt.Sprintf("deposit %d claimed from an undecodable report value", id))
				continue
			}
			ra, err := sdk.AccAddressFromBech32(rcpt)
			if err != nil {
				fail("claim-bad-recipient", fmt.Sprintf("deposit %d claimed with recipient %q", id, rcpt))
				continue
			}
			a12, t12 := new(big.Int).Div(amt, big.NewInt(1e12)), new(big.Int).Div(tip, big.NewInt(1e12))
			if t12.Cmp(a12) > 0 {
				fail("claim-tip-exceeds-amount", fmt.Sprintf("deposit %d claimed with tip %s above amount %s", id, t12, a12))
				continue
			}
			wantMint.Add(wantMint, a12)
			addc(claimer.String(), t12)
			addc(ra.String(), new(big.Int).Sub(a12, t12))
		}
		nc := map[uint64]bool{}
		for k := range w.Claimed {
			nc[k] = true
		}
		for k := range seen {
			nc[k] = true
		}
		w.Claimed = nc
		if got := w.Supply().Sub(p.supply); got.BigInt().Cmp(wantMint) != 0 {
			cls := "other"
			if wantMint.BitLen() > 63 {
				cls = "amount-beyond-int64"
			}
			fail("mint-amount|"+cls, fmt.Sprintf("claim minted %s, the reported amounts/1e12 sum to %s", got, wantMint))
		}
		for a, v := range credit {
			if b, ok := p.bals[a]; ok {
				if got := w.Bal(sdk.MustAccAddressFromBech32(a)).Sub(b); got.BigInt().Cmp(v) != 0 {
					cls := "other"
					if wantMint.BitLen() > 63 {
						cls = "amount-beyond-int64"
					}
					fail("claim-credit|"+cls, fmt.Sprintf("%s received %s, reported amounts imply %s", short(a), got, v))
				}
			}
		}
	case *bridgetypes.MsgWithdrawTokens:
		e.RC.Count("accepted_withdrawals", 1)
		sender := sdk.MustAccAddressFromBech32(x.Creator)
		if got := p.supply.Sub(w.Supply()); !got.Equal(x.Amount.Amount) {
			fail("withdraw-burn", fmt.Sprintf("withdrawal of %s burned %s", x.Amount.Amount, got))
		}
		if got := p.bals[sender.String()].Sub(w.Bal(sender)); !got.Equal(x.Amount.Amount) {
			fail("withdraw-debit", fmt.Sprintf("withdrawal of %s debited the sender %s", x.Amount.Amount, got))
		}
		id, err := w.App.BridgeKeeper.WithdrawalId.Get(w.Ctx)
		if err != nil || id.Id != p.wdID+1 {
			fail("withdraw-id", fmt.Sprintf("withdrawal id is %d after id %d", id.Id, p.wdID))
			return
		}
		qid := QID(BridgeQuery(false, id.Id))
		var fresh []AggKV
		old := map[string]bool{}
		for _, a := range p.aggs {
			old[fmt.Sprintf("%x/%d", a.QueryId, a.Ts)] = true
		}
		for _, a := range w.Aggregates() {
			if !old[fmt.Sprintf("%x/%d", a.QueryId, a.Ts)] {
				fresh = append(fresh, a)
			}
		}
		if len(fresh) != 1 || !bytes.Equal(fresh[0].QueryId, qid) {
			fail("withdraw-aggregate", fmt.Sprintf("withdrawal %d published %d new aggregates / not under its withdrawal query id", id.Id, len(fresh)))
			return
		}
		bz, _ := hex.DecodeString(fresh[0].Agg.AggregateValue)
		outv, err := abi.Arguments{{Type: mustType("address")}, {Type: mustType("string")}, {Type: mustType("uint256")}, {Type: mustType("uint256")}}.Unpack(bz)
		if err != nil {
			fail("withdraw-value", "withdrawal aggregate value does not decode")
			return
		}
		rcpBytes, _ := hex.DecodeString(x.Recipient)
		a20 := make([]byte, 20)
		if len(rcpBytes) >= 20 {
			copy(a20, rcpBytes[len(rcpBytes)-20:])
		} else {
			copy(a20[20-len(rcpBytes):], rcpBytes)
		}
		gotAddr := outv[0].(interface{ Bytes() []byte }).Bytes()
		if !bytes.Equal(gotAddr, a20) || outv[1].(string) != x.Creator || outv[2].(*big.Int).Cmp(x.Amount.Amount.BigInt()) != 0 {
			fail("withdraw-value", fmt.Sprintf("withdrawal aggregate encodes (%x,%s,%s), request was (%x,%s,%s)", gotAddr, outv[1], outv[2], a20, x.Creator, x.Amount.Amount))
		}
		if len(rcpBytes) != 20 {
			e.RC.Distinct("withdraw_recipient_lengths_accepted", fmt.Sprint(len(rcpBytes)))
		}
	}
}

// installDeposit stores a deposit aggregate the way the bridge stores withdrawal aggregates (keeper SetAggregate).
func installDeposit(w *World, id uint64, value string, power uint64, flagged bool, reporter sdk.AccAddress) {
	a := &oracletypes.Aggregate{QueryId: QID(BridgeQuery(true, id)), AggregateValue: value, AggregateReporter: reporter.String(), ReporterPower: power,
		Reporters: []*oracletypes.AggregateReporter{{Reporter: reporter.String(), Power: power, BlockNumber: uint64(w.Height())}}, Flagged: flagged,
		MicroHeight: uint64(w.Height()), MetaId: 999}
	if err := w.App.OracleKeeper.SetAggregate(w.Ctx, a); err != nil {
		panic(err)
	}
}

func checkC14(rc *RunCtx) {
	mons := []Monitor{BridgeMonitor{}}
	// ---- (a) injected product ----
	big1e12 := func(n int64) *big.Int { return bigMul(n, 1e12) }
	two63 := new(big.Int).Mul(new(big.Int).Lsh(big.NewInt(1), 63), big.NewInt(1e12))
	two64 := new(big.Int).Mul(new(big.Int).Lsh(big.NewInt(1), 64), big.NewInt(1e12))
	type variant struct {
		name  string
		value func(rcpt string) string
	}
	variants := []variant{
		{"well-formed", func(r string) string { return DepositValue(r, big1e12(5_000_000), big1e12(1000)) }},
		{"tip0", func(r string) string { return DepositValue(r, big1e12(5_000_000), big.NewInt(0)) }},
		{"tip=amount", func(r string) string { return DepositValue(r, big1e12(5_000_000), big1e12(5_000_000)) }},
		{"tip>amount", func(r string) string { return DepositValue(r, big1e12(5), big1e12(6)) }},
		{"not-multiple", func(r string) string {
			return DepositValue(r, new(big.Int).Add(big1e12(5_000_000), big.NewInt(999_999_999_999)), big.NewInt(1_999_999_999_999))
		}},
		{"below-1e12", func(r string) string { return DepositValue(r, big.NewInt(999_999_999_999), big.NewInt(0)) }},
		{"2^63*1e12", func(r string) string { return DepositValue(r, two63, big.NewInt(0)) }},
		{"2^64*1e12+tip", func(r string) string { return DepositValue(r, two64, two63) }},
		{"(2^64+5)*1e12", func(r string) string {
			return DepositValue(r, new(big.Int).Mul(new(big.Int).Add(new(big.Int).Lsh(big.NewInt(1), 64), big.NewInt(5)), big.NewInt(1e12)), big.NewInt(0))
		}},
		{"truncated", func(r string) string { v := DepositValue(r, big1e12(5), big.NewInt(0)); return v[:len(v)-70] }},
		{"bad-bech32", func(r string) string { return DepositValue("tellor1notanaddress", big1e12(5), big.NewInt(0)) }},
		{"0x-prefixed", func(r string) string { return "0x" + DepositValue(r, big1e12(7), big1e12(1)) }},
	}
	claims := []struct {
		name string
		ids  func(id uint64) ([]uint64, []uint64)
	}{
		{"single", func(id uint64) ([]uint64, []uint64) { return []uint64{id}, []uint64{0} }},
		{"batched-dup", func(id uint64) ([]uint64, []uint64) { return []uint64{id, id}, []uint64{0, 0} }},
		{"wrong-index", func(id uint64) ([]uint64, []uint64) { return []uint64{id}, []uint64{1} }},
		{"unknown-id", func(id uint64) ([]uint64, []uint64) { return []uint64{id + 1000}, []uint64{0} }},
		// never-reported ids whose query ids sort directly before / after the reported one in the aggregate store
		{"unknown-id-sorting-before", func(id uint64) ([]uint64, []uint64) { b, _ := DepositIDsAround(id); return []uint64{b}, []uint64{0} }},
		{"unknown-id-sorting-after", func(id uint64) ([]uint64, []uint64) { _, a := DepositIDsAround(id); return []uint64{a}, []uint64{0} }},
		{"unknown-id-sorting-before-index1", func(id uint64) ([]uint64, []uint64) { b, _ := DepositIDsAround(id); return []uint64{b}, []uint64{1} }},
	}
	ages := []time.Duration{12*time.Hour - time.Millisecond, 12 * time.Hour, 12*time.Hour + time.Millisecond}
	if rc.Replay == nil || rc.Replay.Scenario == "claim-product" {
		base := NewWorld(Config{})
		c := StdSetup(base, true)
		for i := 0; i < 3; i++ {
			mustBlock(base, time.Second)
		}
		thr0, ok := refThresholdBefore(base, uint64(base.Time().UnixMilli())+1)
		if !ok {
			panic("C14: no validator set checkpoint in the base world")
		}
		for vi, v := range variants {
			for pi, dp := range []int64{-1, 0, 1} {
				for _, flagged := range []bool{false, true} {
					for _, changeValset := range []int{0, 1, 2} { // 0 unchanged, 1 power raised, 2 power lowered after the report
						for ai, age := range ages {
							if rc.Replay == nil && !rc.Mine() {
								continue
							}
							w := base.Fork()
							id := uint64(100 + vi)
							installDeposit(w, id, v.value(c.S1.Acc.String()), uint64(int64(thr0)+dp), flagged, c.RV1.Acc)
							w.Trace = []string{fmt.Sprintf("install(deposit %d,%s,power=thr%+d,flagged=%v)", id, v.name, dp, flagged)}
							e := &Explorer{RC: rc, Scenario: "claim-product", Monitors: mons}
							cur := w
							step := func(ev Event) Outcome {
								n, out := e.Step(cur, ev)
								if out.Kind != "halt" {
									cur = n
								}
								return out
							}
							if changeValset == 2 {
								// lower the validator power by > 5% (two admission periods): the threshold at claim time is lower than at report time
								step(ev1("Undelegate(V1,self,500)", "undelegate", func(w *World) sdkMsg { return MsgUndelegate(w.Vals[0].Acc, w.Vals[0], 500*TRB) }))
								step(BlockEv(time.Second))
								step(BlockEv(12 * time.Hour))
								step(BlockEv(time.Second))
								step(ev1("Undelegate(V2,self,300)", "undelegate", func(w *World) sdkMsg { return MsgUndelegate(w.Vals[1].Acc, w.Vals[1], 300*TRB) }))
								step(BlockEv(time.Second))
								step(BlockEv(time.Second))
							} else if changeValset == 1 {
								// raise the validator power by > 5% so that a new checkpoint with a higher threshold exists at claim time
								step(ev1("Delegate(Payer,V1,250)", "delegate", func(w *World) sdkMsg { return MsgDelegate(c.Payer.Acc, w.Vals[0], 250*TRB) }))
								step(BlockEv(time.Second))
								step(ev1("Delegate(Tipper,V1,240)", "delegate", func(w *World) sdkMsg { return MsgDelegate(c.Tipper.Acc, w.Vals[0], 240*TRB) }))
								step(BlockEv(time.Second))
								step(BlockEv(age - 2*time.Second))
							} else {
								step(BlockEv(age))
							}
							for _, cl := range claims {
								cl := cl
								step(ev1("Claim("+cl.name+")", "claim", func(w *World) sdkMsg { ids, ix := cl.ids(id); return MsgClaimDeposits(c.Payer.Acc, ids, ix) }))
							}
							step(ev1("Claim(single-again)", "claim", func(w *World) sdkMsg { return MsgClaimDeposits(c.Tipper.Acc, []uint64{id}, []uint64{0}) }))
							step(BlockEv(time.Hour))
							step(ev1("Claim(single-later)", "claim", func(w *World) sdkMsg { return MsgClaimDeposits(c.Tipper.Acc, []uint64{id}, []uint64{0}) }))
							rc.Count("executions", 1)
							rc.Count("states", 1)
							if vi == 0 && pi == 1 && ai == 1 && !flagged && changeValset == 0 {
								rc.Sample(map[string]interface{}{"scenario": "claim-product", "trace": cur.Trace})
							}
							_ = pi
						}
					}
				}
			}
		}
	}
	// ---- (b) DFS from a real end-to-end deposit ----
	depth := 4
	if !rc.Quick() {
		depth = 5
	}
	if rc.Replay == nil || rc.Replay.Scenario == "bridge-dfs" {
		w := NewWorld(Config{})
		c := StdSetup(w, true)
		deepDeposit(w, c)
		w.Trace = nil
		full := FullAlphabet(c)
		keep := func(l string) bool {
			return hasAnyPrefix(l, "ClaimDeposits(", "WithdrawTokens(", "RequestAttest(", "Delegate(Payer,V3,150)", "Submit(R1,wd1", "Tip(wd1", "Submit(R1,dep1,valid)")
		}
		extra := []Event{
			ev1("Propose(Payer,RV1dep,warning)", "propose/deposit", func(w *World) sdkMsg {
				for _, r := range w.ReportsBy(c.RV1.Acc) {
					if bytes.Equal(r.QueryId, QID(c.Dep1)) {
						return MsgPropose(c.Payer.Acc, r, 1, int64(r.Power)*TRB/100, false)
					}
				}
				return nil
			}),
		}
		gaps := []time.Duration{time.Second, 12*time.Hour - time.Second, 12 * time.Hour}
		alpha := func(w *World) []Event {
			var out []Event
			for _, ev := range full(w) {
				if keep(ev.Label) {
					out = append(out, ev)
				}
			}
			out = append(out, extra...)
			for _, g := range gaps {
				out = append(out, BlockEv(g))
			}
			return out
		}
		e := &Explorer{RC: rc, Scenario: "bridge-dfs", Monitors: mons, Horizon: []time.Duration{time.Second}}
		if rc.Replay != nil {
			e.ReplayTrace(w, rc.Replay.Trace, func(w *World, l string) (Event, bool) {
				for _, ev := range alpha(w) {
					if ev.Label == l {
						return ev, true
					}
				}
				return Resolver(nil, nil)(w, l)
			})
			return
		}
		for _, ev := range alpha(w) {
			n, out := e.Step(w, ev)
			if out.Kind == "tx-rej" || out.Kind == "halt" {
				continue
			}
			for _, ev2 := range alpha(n) {
				if !rc.Mine() {
					continue
				}
				n2, out2 := e.Step(n, ev2)
				if out2.Kind == "tx-rej" || out2.Kind == "halt" {
					continue
				}
				e.DFS(n2, alpha, depth-2)
			}
		}
		rc.Sample(map[string]interface{}{"scenario": "bridge-dfs", "depth": depth, "alphabet": labels(alpha(w))})
	}
	// ---- (c) bridge skeleton deviations ----
	for _, s := range Skeletons() {
		if s.Name != "bridge" || (rc.Replay != nil && rc.Replay.Scenario != s.Name) {
			continue
		}
		w, _, sk, alpha := BuildSkeleton(s)
		e := &Explorer{RC: rc, Scenario: s.Name, Monitors: mons, Horizon: QuiesceHorizon}
		if rc.Replay != nil {
			e.ReplayTrace(w, rc.Replay.Trace, Resolver(sk, alpha))
			return
		}
		e.Deviations(w, sk, alpha, kOf(rc))
	}
}
