//go:build verif

package mc

import (
	"bytes"
	"encoding/hex"
	"fmt"
	"math/big"
	"strings"

	disputetypes "github.com/tellor-io/layer/x/dispute/types"
	oracletypes "github.com/tellor-io/layer/x/oracle/types"

	"cosmossdk.io/math"

	sdk "github.com/cosmos/cosmos-sdk/types"
)

// minStakeBoundaryEvents adds the two minimum-stake boundary events to the alphabet; set by the check whose property
// speaks about the minimum stake (C07), whose run validates them - each check is its own process.
var minStakeBoundaryEvents bool

// FullAlphabet returns the deviation alphabet "every message type of every
// module in valid / boundary / malformed variants" (DESIGN §C02). It is state
// dependent only through getters (current cycle query, last dispute id, stored
// reports); the list of labels is the same in every state.
func FullAlphabet(c *Cast) func(w *World) []Event {
	return func(w *World) []Event {
		var evs []Event
		add := func(label, tag string, m func(w *World) sdk.Msg) { evs = append(evs, ev1(label, tag, m)) }
		addN := func(label, tag string, m func(w *World) []sdk.Msg) { evs = append(evs, TxEv(label, tag, m)) }
		V := w.Vals
		cyc := func(w *World) []byte { return w.CycleQuery() }
		next := func(w *World) (out []byte) {
			defer func() {
				if recover() != nil {
					out = nil
				}
			}()
			qd, err := w.App.OracleKeeper.GetNextCurrentQueryInCycleList(w.Ctx)
			if err != nil {
				return nil
			}
			return qd
		}
		depVal := DepositValue(c.Payer.Acc.String(), new(big.Int).Mul(big.NewInt(5_000_000), big.NewInt(1e12)), new(big.Int).Mul(big.NewInt(1_000), big.NewInt(1e12)))

		// ---- oracle: SubmitValue
		type vv struct{ name, val string }
		vals := []vv{
			{"std", U256(100)}, {"0x", "0x" + U256(100)}, {"0X", "0X" + U256(100)}, {"upper", strings.ToUpper(U256(0xabc))},
			{"odd", "abc"}, {"long66", U256(7) + "ff"}, {"long128", U256(7) + U256(9)}, {"empty", ""}, {"nonhex", "zz"},
		}
		for _, v := range vals {
			v := v
			add("Submit(R1,cyc,"+v.name+")", "submit/"+v.name, func(w *World) sdk.Msg {
				if q := cyc(w); q != nil {
					return MsgSubmit(c.R1.Acc, q, v.val)
				}
				return nil
			})
		}
		add("Submit(R2,cyc,std200)", "submit/std", func(w *World) sdk.Msg {
			if q := cyc(w); q != nil {
				return MsgSubmit(c.R2.Acc, q, U256(200))
			}
			return nil
		})
		add("Submit(R2,cyc,0x)", "submit/0x", func(w *World) sdk.Msg {
			if q := cyc(w); q != nil {
				return MsgSubmit(c.R2.Acc, q, "0x"+U256(200))
			}
			return nil
		})
		add("Submit(R1,next,std)", "submit/notcurrent", func(w *World) sdk.Msg {
			if q := next(w); q != nil {
				return MsgSubmit(c.R1.Acc, q, U256(100))
			}
			return nil
		})
		for _, v := range []vv{{"std", U256(100)}, {"0x", "0x" + U256(100)}, {"upper", strings.ToUpper(U256(0xabc))}, {"lower", U256(0xabc)}} {
			v := v
			add("Submit(R1,modeq,"+v.name+")", "submit-mode/"+v.name, func(w *World) sdk.Msg { return MsgSubmit(c.R1.Acc, c.ModeQ, v.val) })
		}
		add("Submit(R2,modeq,std100)", "submit-mode/std", func(w *World) sdk.Msg { return MsgSubmit(c.R2.Acc, c.ModeQ, U256(100)) })
		add("Submit(R2,modeq,std200)", "submit-mode/std", func(w *World) sdk.Msg { return MsgSubmit(c.R2.Acc, c.ModeQ, U256(200)) })
		add("Submit(R1,dep1,valid)", "submit-dep/valid", func(w *World) sdk.Msg { return MsgSubmit(c.R1.Acc, c.Dep1, depVal) })
		add("Submit(R1,dep1,0x)", "submit-dep/0x", func(w *World) sdk.Msg { return MsgSubmit(c.R1.Acc, c.Dep1, "0x"+depVal) })
		add("Submit(R1,dep1,junk32)", "submit-dep/junk", func(w *World) sdk.Msg { return MsgSubmit(c.R1.Acc, c.Dep1, U256(1)) })
		add("Submit(R2,dep1,valid)", "submit-dep/valid", func(w *World) sdk.Msg { return MsgSubmit(c.R2.Acc, c.Dep1, depVal) })
		depVal2 := DepositValue(c.Payer.Acc.String(), new(big.Int).Mul(big.NewInt(6_000_000), big.NewInt(1e12)), new(big.Int).Mul(big.NewInt(1_000), big.NewInt(1e12)))
		add("Submit(R2,dep1,valid2)", "submit-dep/valid2", func(w *World) sdk.Msg { return MsgSubmit(c.R2.Acc, c.Dep1, depVal2) })
		add("Submit(R1,wd1,std)", "submit-wd", func(w *World) sdk.Msg { return MsgSubmit(c.R1.Acc, c.Wd1, U256(1)) })
		// a value of the shape the bridge itself publishes for withdrawals (address, string, amount, tip)
		add("Submit(R1,wd1,wellformed)", "submit-wd/wellformed", func(w *World) sdk.Msg { return MsgSubmit(c.R1.Acc, c.Wd1, depVal) })
		add("Submit(S1,cyc,std)", "submit/selector", func(w *World) sdk.Msg {
			if q := cyc(w); q != nil {
				return MsgSubmit(c.S1.Acc, q, U256(1))
			}
			return nil
		})
		add("Submit(Payer,cyc,std)", "submit/nonreporter", func(w *World) sdk.Msg {
			if q := cyc(w); q != nil {
				return MsgSubmit(c.Payer.Acc, q, U256(1))
			}
			return nil
		})

		// ---- oracle: Tip
		add("Tip(cyc,1000)", "tip/cyc", func(w *World) sdk.Msg {
			if q := cyc(w); q != nil {
				return MsgTip(c.Tipper.Acc, q, 1000)
			}
			return nil
		})
		add("Tip(next,1000)", "tip/next", func(w *World) sdk.Msg {
			if q := next(w); q != nil {
				return MsgTip(c.Tipper.Acc, q, 1000)
			}
			return nil
		})
		for _, a := range []int64{0, 1, 49, 50, 1_000_001} {
			a := a
			add(fmt.Sprintf("Tip(modeq,%d)", a), "tip/modeq", func(w *World) sdk.Msg { return MsgTip(c.Tipper.Acc, c.ModeQ, a) })
		}
		add("Tip(modeq3,50)", "tip/modeq", func(w *World) sdk.Msg { return MsgTip(c.Tipper.Acc, c.ModeQ3, 50) })
		// three validator reporters on a weighted-mode query: with stakes 5000/3000/2900 the mode (7) differs from the median (8)
		for _, rv := range []struct {
			n string
			u *User
			v int64
		}{{"RV1", c.RV1, 7}, {"RV2", c.RV2, 8}, {"RV3", c.RV3, 9}} {
			rv := rv
			add(fmt.Sprintf("Submit(%s,modeq3,%d)", rv.n, rv.v), "submit-mode/rv", func(w *World) sdk.Msg {
				if rv.u == nil {
					return nil
				}
				return MsgSubmit(rv.u.Acc, c.ModeQ3, U256(rv.v))
			})
		}
		add("Tip(modeq2,777)", "tip/modeq", func(w *World) sdk.Msg { return MsgTip(c.Tipper.Acc, c.ModeQ2, 777) })
		add("Tip(dep1,1000)", "tip/dep", func(w *World) sdk.Msg { return MsgTip(c.Tipper.Acc, c.Dep1, 1000) })
		add("Tip(wd1,1000)", "tip/wd", func(w *World) sdk.Msg { return MsgTip(c.Tipper.Acc, c.Wd1, 1000) })
		add("Tip(garbage,1000)", "tip/garbage", func(w *World) sdk.Msg { return MsgTip(c.Tipper.Acc, []byte{1, 2, 3}, 1000) })
		add("Tip(unregistered,1000)", "tip/unregistered", func(w *World) sdk.Msg { return MsgTip(c.Tipper.Acc, CustomQuery("nosuchtype", 1), 1000) })
		add("Tip(modeq,overbalance)", "tip/overbalance", func(w *World) sdk.Msg {
			return MsgTip(c.Tipper.Acc, c.ModeQ, w.Bal(c.Tipper.Acc).Int64()+1)
		})

		// ---- oracle: governance
		add("Cyclelist(gov,[eth])", "cyclelist/shrink1", func(w *World) sdk.Msg { return MsgCyclelist(w.Gov, c.ETH) })
		add("Cyclelist(gov,[btc,eth])", "cyclelist/shrink2", func(w *World) sdk.Msg { return MsgCyclelist(w.Gov, c.BTC, c.ETH) })
		add("Cyclelist(gov,[])", "cyclelist/empty", func(w *World) sdk.Msg { return MsgCyclelist(w.Gov) })
		add("Cyclelist(gov,+modeq)", "cyclelist/grow", func(w *World) sdk.Msg { return MsgCyclelist(w.Gov, c.ETH, c.BTC, c.TRBQ, c.ModeQ) })
		add("Cyclelist(gov,[eth,eth])", "cyclelist/dup", func(w *World) sdk.Msg { return MsgCyclelist(w.Gov, c.ETH, c.ETH) })
		add("Cyclelist(gov,[garbage])", "cyclelist/garbage", func(w *World) sdk.Msg { return MsgCyclelist(w.Gov, []byte{9, 9}) })
		add("Cyclelist(gov,[unregistered])", "cyclelist/unregistered", func(w *World) sdk.Msg { return MsgCyclelist(w.Gov, CustomQuery("nosuchtype", 1)) })
		add("Cyclelist(gov,[wd1])", "cyclelist/withdrawal", func(w *World) sdk.Msg { return MsgCyclelist(w.Gov, c.Wd1) })
		add("Cyclelist(user,[eth])", "cyclelist/nonauth", func(w *World) sdk.Msg { return MsgCyclelist(c.Payer.Acc.String(), c.ETH) })
		add("OracleParams(gov,minstake=0)", "oracleparams/0", func(w *World) sdk.Msg { return MsgOracleParams(w.Gov, 0) })
		add("OracleParams(gov,minstake=1e12)", "oracleparams/big", func(w *World) sdk.Msg { return MsgOracleParams(w.Gov, 1_000_000_000_000) })
		// the boundary of "holds at least the minimum stake": the minimum set to exactly R1's current stake (still allowed) and to one unit above it (no longer)
		if minStakeBoundaryEvents {
			add("OracleParams(gov,minstake=R1stake)", "oracleparams/at", func(w *World) sdk.Msg { st, _ := refReporterStake(w, c.R1.Acc); return MsgOracleParams(w.Gov, st.Int64()) })
			add("OracleParams(gov,minstake=R1stake+1)", "oracleparams/above", func(w *World) sdk.Msg { st, _ := refReporterStake(w, c.R1.Acc); return MsgOracleParams(w.Gov, st.Int64()+1) })
		}

		// ---- registry
		add("RegisterSpec(newq,median,w=0)", "register/w0", func(w *World) sdk.Msg { return MsgRegisterSpec(c.Payer.Acc, "newq", Spec("uint256", "weighted-median", 0)) })
		add("RegisterSpec(newq,mode,string,w=1)", "register/string", func(w *World) sdk.Msg { return MsgRegisterSpec(c.Payer.Acc, "newq", Spec("string", "weighted-mode", 1)) })
		add("RegisterSpec(MODEQ-again)", "register/dup", func(w *World) sdk.Msg { return MsgRegisterSpec(c.Payer.Acc, "MODEQ", Spec("uint256", "weighted-median", 9)) })
		// the same registered name in other spellings: the guard and the store have to agree on what "the same" means
		add("RegisterSpec(modeq-padded)", "register/dup", func(w *World) sdk.Msg { return MsgRegisterSpec(c.Payer.Acc, " "+ModeType+" ", Spec("uint256", "weighted-median", 9)) })
		add("RegisterSpec(modeq-tab-newline)", "register/dup", func(w *World) sdk.Msg { return MsgRegisterSpec(c.Payer.Acc, "\t"+ModeType+"\n", Spec("string", "weighted-mode", 9)) })
		add("RegisterSpec(SpotPrice-padded)", "register/dup", func(w *World) sdk.Msg { return MsgRegisterSpec(c.Payer.Acc, "SpotPrice ", Spec("string", "weighted-mode", 9)) })
		add("RegisterSpec(newq,w=max+1)", "register/overmax", func(w *World) sdk.Msg { return MsgRegisterSpec(c.Payer.Acc, "newq", Spec("uint256", "weighted-median", 1<<40)) })
		add("UpdateSpec(gov,modeq,w=0)", "updatespec/w0", func(w *World) sdk.Msg { return MsgUpdateSpec(w.Gov, ModeType, Spec("uint256", "weighted-mode", 0)) })
		add("UpdateSpec(gov,modeq,w=5)", "updatespec/w5", func(w *World) sdk.Msg { return MsgUpdateSpec(w.Gov, ModeType, Spec("uint256", "weighted-mode", 5)) })
		add("UpdateSpec(gov,modeq,median)", "updatespec/method", func(w *World) sdk.Msg { return MsgUpdateSpec(w.Gov, ModeType, Spec("uint256", "weighted-median", 2)) })
		add("UpdateSpec(gov,modeq,string)", "updatespec/type", func(w *World) sdk.Msg { return MsgUpdateSpec(w.Gov, ModeType, Spec("string", "weighted-mode", 2)) })
		add("UpdateSpec(gov,modeq,badtype)", "updatespec/badtype", func(w *World) sdk.Msg { return MsgUpdateSpec(w.Gov, ModeType, Spec("notatype", "nomethod", 2)) })
		add("UpdateSpec(gov,spotprice,w=0)", "updatespec/spot-w0", func(w *World) sdk.Msg { return MsgUpdateSpec(w.Gov, "SpotPrice", Spec("uint256", "weighted-median", 0)) })
		add("UpdateSpec(gov,spotprice,mode)", "updatespec/spot-mode", func(w *World) sdk.Msg { return MsgUpdateSpec(w.Gov, "SpotPrice", Spec("uint256", "weighted-mode", 2)) })
		add("UpdateSpec(user,modeq)", "updatespec/nonauth", func(w *World) sdk.Msg { return MsgUpdateSpec(c.Payer.Acc.String(), ModeType, Spec("uint256", "weighted-mode", 5)) })

		// ---- reporter
		for _, cm := range []string{"0", "1", "1.5", "100", "-0.1"} {
			cm := cm
			addN("Delegate+CreateReporter(Payer,comm="+cm+")", "createreporter/"+cm, func(w *World) []sdk.Msg {
				return []sdk.Msg{MsgDelegate(c.Payer.Acc, V[0], 5*TRB), MsgCreateReporter(c.Payer.Acc, cm, TRB)}
			})
		}
		addN("Delegate+CreateReporter(Payer,min=5TRB)", "createreporter/highmin", func(w *World) []sdk.Msg {
			return []sdk.Msg{MsgDelegate(c.Payer.Acc, V[0], 5*TRB), MsgCreateReporter(c.Payer.Acc, "0.1", 5*TRB)}
		})
		add("Delegate(Tipper,V1,2)", "delegate/small", func(w *World) sdk.Msg { return MsgDelegate(c.Tipper.Acc, V[0], 2*TRB) })
		add("Select(Tipper->Payer)", "select/below-reporter-min", func(w *World) sdk.Msg { return MsgSelect(c.Tipper.Acc, c.Payer.Acc) })
		add("CreateReporter(Payer,nostake)", "createreporter/nostake", func(w *World) sdk.Msg { return MsgCreateReporter(c.Payer.Acc, "0.1", TRB) })
		add("CreateReporter(S1,already)", "createreporter/already", func(w *World) sdk.Msg { return MsgCreateReporter(c.S1.Acc, "0.1", TRB) })
		addN("Delegate+Select(Payer->R1)", "select/new", func(w *World) []sdk.Msg {
			return []sdk.Msg{MsgDelegate(c.Payer.Acc, V[1], 5*TRB), MsgSelect(c.Payer.Acc, c.R1.Acc)}
		})
		// a selector whose stake meets the reporter's minimum only as the sum of two delegations
		addN("Delegate+Select(Tipper->R1,split)", "select/split", func(w *World) []sdk.Msg {
			return []sdk.Msg{MsgDelegate(c.Tipper.Acc, V[0], 600_000), MsgDelegate(c.Tipper.Acc, V[1], 600_000), MsgSelect(c.Tipper.Acc, c.R1.Acc)}
		})
		add("RemoveSelector(Payer,Tipper)", "removeselector", func(w *World) sdk.Msg { return MsgRemoveSelector(c.Payer.Acc, c.Tipper.Acc) })
		add("Switch(S1->R2)", "switch", func(w *World) sdk.Msg { return MsgSwitch(c.S1.Acc, c.R2.Acc) })
		add("Switch(S2->R1)", "switch", func(w *World) sdk.Msg { return MsgSwitch(c.S2.Acc, c.R1.Acc) })
		add("Switch(S1->RV2)", "switch", func(w *World) sdk.Msg { return MsgSwitch(c.S1.Acc, c.RV2.Acc) })
		add("Switch(S3->R2)", "switch", func(w *World) sdk.Msg { return MsgSwitch(c.S3.Acc, c.R2.Acc) })
		add("Switch(R1->R2)", "switch/reporter", func(w *World) sdk.Msg { return MsgSwitch(c.R1.Acc, c.R2.Acc) })
		add("RemoveSelector(Payer,S1)", "removeselector", func(w *World) sdk.Msg { return MsgRemoveSelector(c.Payer.Acc, c.S1.Acc) })
		add("Unjail(R1)", "unjail", func(w *World) sdk.Msg { return MsgUnjail(c.R1.Acc) })
		add("Unjail(R2)", "unjail", func(w *World) sdk.Msg { return MsgUnjail(c.R2.Acc) })
		for _, u := range []struct {
			n string
			u *User
		}{{"R1", c.R1}, {"S1", c.S1}, {"R2", c.R2}, {"S2", c.S2}, {"S3", c.S3}} {
			u := u
			add("WithdrawTip("+u.n+",V1)", "withdrawtip", func(w *World) sdk.Msg { return MsgWithdrawTip(u.u.Acc, V[0]) })
		}
		add("WithdrawTip(R2,V2)", "withdrawtip", func(w *World) sdk.Msg { return MsgWithdrawTip(c.R2.Acc, V[1]) })
		add("WithdrawTip(R1,V3)", "withdrawtip", func(w *World) sdk.Msg { return MsgWithdrawTip(c.R1.Acc, V[len(V)-1]) })
		add("ReporterParams(gov,maxsel=1)", "reporterparams/maxsel1", func(w *World) sdk.Msg { return MsgReporterParams(w.Gov, TRB, 1) })
		add("ReporterParams(gov,maxsel=0,mintrb=0)", "reporterparams/zero", func(w *World) sdk.Msg { return MsgReporterParams(w.Gov, 0, 0) })
		add("ReporterParams(user)", "reporterparams/nonauth", func(w *World) sdk.Msg { return MsgReporterParams(c.Payer.Acc.String(), 0, 0) })

		// ---- staking
		add("Delegate(R1,V1,10)", "delegate", func(w *World) sdk.Msg { return MsgDelegate(c.R1.Acc, V[0], 10*TRB) })
		add("Delegate(S1,V2,5)", "delegate/2ndval", func(w *World) sdk.Msg { return MsgDelegate(c.S1.Acc, V[1], 5*TRB) })
		// S2 already delegates to V2 and V3: in a world with a fourth validator this is its third delegation
		add("Delegate(S2,Vlast,10)", "delegate/extra-validator", func(w *World) sdk.Msg { return MsgDelegate(c.S2.Acc, V[len(V)-1], 10*TRB) })
		// stakes with awkward residues: proportional splits of round amounts over them carry fractions above one half in most entries
		add("Delegate(R1,V1,800loya)", "delegate/residue", func(w *World) sdk.Msg { return MsgDelegate(c.R1.Acc, V[0], 800) })
		add("Delegate(S1,V1,800loya)", "delegate/residue", func(w *World) sdk.Msg { return MsgDelegate(c.S1.Acc, V[0], 800) })
		add("Delegate(S3,V2,400loya)", "delegate/residue", func(w *World) sdk.Msg { return MsgDelegate(c.S3.Acc, V[1], 400) })
		add("Delegate(Payer,V3,150)", "delegate/big", func(w *World) sdk.Msg { return MsgDelegate(c.Payer.Acc, V[len(V)-1], 150*TRB) })
		add("Undelegate(R1,V1,all)", "undelegate/all", func(w *World) sdk.Msg { return MsgUndelegate(c.R1.Acc, V[0], 100*TRB) })
		add("Undelegate(R1,V1,half)", "undelegate/part", func(w *World) sdk.Msg { return MsgUndelegate(c.R1.Acc, V[0], 50*TRB) })
		add("Undelegate(R1,V1,1loya)", "undelegate/1", func(w *World) sdk.Msg { return MsgUndelegate(c.R1.Acc, V[0], 1) })
		// "most": what stays behind is smaller than any slash share, so an escrow has to follow the moved tokens
		add("Undelegate(R1,V1,most)", "undelegate/most", func(w *World) sdk.Msg { return MsgUndelegate(c.R1.Acc, V[0], 100*TRB-TRB/2) })
		add("Undelegate(S1,V1,all)", "undelegate/all", func(w *World) sdk.Msg { return MsgUndelegate(c.S1.Acc, V[0], 20*TRB) })
		add("Undelegate(R2,V2,all)", "undelegate/all", func(w *World) sdk.Msg { return MsgUndelegate(c.R2.Acc, V[1], 60*TRB) })
		add("Undelegate(V3,self,400)", "undelegate/validator", func(w *World) sdk.Msg { return MsgUndelegate(V[len(V)-1].Acc, V[len(V)-1], 400*TRB) })
		add("Redelegate(R1,V1->V2,all)", "redelegate/all", func(w *World) sdk.Msg { return MsgRedelegate(c.R1.Acc, V[0], V[1], 100*TRB) })
		add("Redelegate(R1,V1->V2,half)", "redelegate/part", func(w *World) sdk.Msg { return MsgRedelegate(c.R1.Acc, V[0], V[1], 50*TRB) })
		add("Redelegate(R1,V1->V2,most)", "redelegate/most", func(w *World) sdk.Msg { return MsgRedelegate(c.R1.Acc, V[0], V[1], 100*TRB-TRB/2) })
		add("Redelegate(R2,V2->V3,all)", "redelegate/all", func(w *World) sdk.Msg { return MsgRedelegate(c.R2.Acc, V[1], V[len(V)-1], 60*TRB) })
		add("CancelUnbond(R1,V1,10)", "cancelunbond", func(w *World) sdk.Msg {
			ubd, err := w.App.StakingKeeper.GetUnbondingDelegation(w.Ctx, c.R1.Acc, V[0].Val)
			if err != nil || len(ubd.Entries) == 0 {
				return nil
			}
			return MsgCancelUnbond(c.R1.Acc, V[0], 10*TRB, ubd.Entries[0].CreationHeight)
		})
		add("Send(Tipper->Payer,1000)", "send", func(w *World) sdk.Msg { return MsgSend(c.Tipper.Acc, c.Payer.Acc, 1000) })
		add("Send(Payer->Tipper,all)", "send/all", func(w *World) sdk.Msg { return MsgSend(c.Payer.Acc, c.Tipper.Acc, w.Bal(c.Payer.Acc).Int64()) })

		// ---- dispute
		cats := []struct {
			n string
			c disputetypes.DisputeCategory
		}{{"warning", disputetypes.Warning}, {"minor", disputetypes.Minor}, {"major", disputetypes.Major}}
		feeOf := func(r *oracletypes.MicroReport, cat disputetypes.DisputeCategory) int64 {
			stake := int64(r.Power) * TRB
			switch cat {
			case disputetypes.Warning:
				return stake / 100
			case disputetypes.Minor:
				return stake / 20
			}
			return stake
		}
		for _, ct := range cats {
			ct := ct
			add("Propose(Payer,R1rep,"+ct.n+",full)", "propose/"+ct.n+"-full", func(w *World) sdk.Msg {
				r := firstReportBy(w, c.R1.Acc)
				if r == nil {
					return nil
				}
				return MsgPropose(c.Payer.Acc, *r, ct.c, feeOf(r, ct.c), false)
			})
		}
		add("Propose(Tipper,R1rep,warning,full)", "propose/warning-full-tipper", func(w *World) sdk.Msg {
			r := firstReportBy(w, c.R1.Acc)
			if r == nil {
				return nil
			}
			return MsgPropose(c.Tipper.Acc, *r, disputetypes.Warning, feeOf(r, disputetypes.Warning), false)
		})
		// the last stored report of R1: with reports on several queries in one block it is another query than "R1rep"
		add("Propose(Payer,R1lastrep,warning,full)", "propose/warning-full-last", func(w *World) sdk.Msg {
			l := w.ReportsBy(c.R1.Acc)
			if len(l) < 2 {
				return nil
			}
			r := &l[len(l)-1]
			return MsgPropose(c.Payer.Acc, *r, disputetypes.Warning, feeOf(r, disputetypes.Warning), false)
		})
		add("Propose(Payer,R1rep,warning,half)", "propose/warning-half", func(w *World) sdk.Msg {
			r := firstReportBy(w, c.R1.Acc)
			if r == nil {
				return nil
			}
			return MsgPropose(c.Payer.Acc, *r, disputetypes.Warning, feeOf(r, disputetypes.Warning)/2, false)
		})
		add("Propose(Payer,R1rep,warning,full+1)", "propose/warning-over", func(w *World) sdk.Msg {
			r := firstReportBy(w, c.R1.Acc)
			if r == nil {
				return nil
			}
			return MsgPropose(c.Payer.Acc, *r, disputetypes.Warning, feeOf(r, disputetypes.Warning)+1, false)
		})
		add("Propose(Payer,R1rep,warning,full-1)", "propose/warning-almost", func(w *World) sdk.Msg {
			r := firstReportBy(w, c.R1.Acc)
			if r == nil {
				return nil
			}
			return MsgPropose(c.Payer.Acc, *r, disputetypes.Warning, feeOf(r, disputetypes.Warning)-1, false)
		})
		add("Propose(Payer,R1rep,warning,min)", "propose/warning-min", func(w *World) sdk.Msg {
			r := firstReportBy(w, c.R1.Acc)
			if r == nil {
				return nil
			}
			return MsgPropose(c.Payer.Acc, *r, disputetypes.Warning, 10_000, false)
		})
		add("Propose(R2,R1rep,warning,frombond)", "propose/frombond", func(w *World) sdk.Msg {
			r := firstReportBy(w, c.R1.Acc)
			if r == nil {
				return nil
			}
			return MsgPropose(c.R2.Acc, *r, disputetypes.Warning, feeOf(r, disputetypes.Warning), true)
		})
		add("Propose(Payer,R2rep,minor,full)", "propose/minor-R2", func(w *World) sdk.Msg {
			r := firstReportBy(w, c.R2.Acc)
			if r == nil {
				return nil
			}
			return MsgPropose(c.Payer.Acc, *r, disputetypes.Minor, feeOf(r, disputetypes.Minor), false)
		})
		add("Propose(Payer,R1rep-alteredvalue,warning,full)", "propose/altered-value", func(w *World) sdk.Msg {
			r := firstReportBy(w, c.R1.Acc)
			if r == nil {
				return nil
			}
			x := *r
			x.Value = U256(999)
			return MsgPropose(c.Payer.Acc, x, disputetypes.Warning, feeOf(&x, disputetypes.Warning), false)
		})
		add("Propose(Payer,R1rep-power+50,warning,full)", "propose/altered-power", func(w *World) sdk.Msg {
			r := firstReportBy(w, c.R1.Acc)
			if r == nil {
				return nil
			}
			x := *r
			x.Power += 50
			return MsgPropose(c.Payer.Acc, x, disputetypes.Warning, feeOf(&x, disputetypes.Warning), false)
		})
		add("Propose(Payer,R1rep-power0,warning)", "propose/power0", func(w *World) sdk.Msg {
			r := firstReportBy(w, c.R1.Acc)
			if r == nil {
				return nil
			}
			x := *r
			x.Power = 0
			return MsgPropose(c.Payer.Acc, x, disputetypes.Warning, 10_000, false)
		})
		add("Propose(Payer,invented,warning)", "propose/invented", func(w *World) sdk.Msg {
			x := oracletypes.MicroReport{Reporter: c.R1.Acc.String(), Power: 100, QueryType: "SpotPrice", QueryId: QID(c.ETH), Value: U256(5),
				AggregateMethod: "weighted-median", Timestamp: w.Time(), BlockNumber: 1}
			return MsgPropose(c.Payer.Acc, x, disputetypes.Warning, TRB, false)
		})
		add("Propose(Payer,badcategory)", "propose/badcat", func(w *World) sdk.Msg {
			r := firstReportBy(w, c.R1.Acc)
			if r == nil {
				return nil
			}
			return MsgPropose(c.Payer.Acc, *r, disputetypes.DisputeCategory(9), TRB, false)
		})
		add("AddFee(Payer,last,rest)", "addfee/rest", func(w *World) sdk.Msg {
			if id := lastDisputeID(w); id != 0 {
				return MsgAddFee(c.Payer.Acc, id, 1_000*TRB, false)
			}
			return nil
		})
		add("AddFee(Tipper,last,1)", "addfee/1", func(w *World) sdk.Msg {
			if id := lastDisputeID(w); id != 0 {
				return MsgAddFee(c.Tipper.Acc, id, 1, false)
			}
			return nil
		})
		add("AddFee(S1,last,1)", "addfee/1", func(w *World) sdk.Msg {
			if id := lastDisputeID(w); id != 0 {
				return MsgAddFee(c.S1.Acc, id, 1, false)
			}
			return nil
		})
		add("AddFee(S3,last,3)", "addfee/1", func(w *World) sdk.Msg {
			if id := lastDisputeID(w); id != 0 {
				return MsgAddFee(c.S3.Acc, id, 3, false)
			}
			return nil
		})
		add("AddFee(R2,last,rest,frombond)", "addfee/frombond", func(w *World) sdk.Msg {
			if id := lastDisputeID(w); id != 0 {
				return MsgAddFee(c.R2.Acc, id, 1_000*TRB, true)
			}
			return nil
		})
		add("AddFee(R1,last,rest,frombond)", "addfee/disputed-frombond", func(w *World) sdk.Msg {
			if id := lastDisputeID(w); id != 0 {
				return MsgAddFee(c.R1.Acc, id, 1_000*TRB, true)
			}
			return nil
		})
		voters := []struct {
			n string
			u *User
		}{{"Team", w.Team}, {"Tipper", c.Tipper}, {"R1", c.R1}, {"R2", c.R2}, {"S1", c.S1}, {"S2", c.S2}, {"S3", c.S3}, {"Payer", c.Payer}}
		for _, vt := range voters {
			for _, ch := range voteOrder {
				vt, ch, cn := vt, ch, voteNames[ch]
				add("Vote("+vt.n+","+cn+")", "vote/"+vt.n, func(w *World) sdk.Msg {
					if id := lastDisputeID(w); id != 0 {
						return MsgVote(vt.u.Acc, id, ch)
					}
					return nil
				})
			}
		}
		add("Vote(V3acc,support)", "vote/holderonly", func(w *World) sdk.Msg {
			if id := lastDisputeID(w); id != 0 {
				return MsgVote(V[len(V)-1].Acc, id, disputetypes.VoteEnum_VOTE_SUPPORT)
			}
			return nil
		})
		add("Vote(Payer,first,support)", "vote/firstid", func(w *World) sdk.Msg {
			if lastDisputeID(w) > 1 {
				return MsgVote(c.Payer.Acc, 1, disputetypes.VoteEnum_VOTE_SUPPORT)
			}
			return nil
		})
		for _, vt := range voters {
			vt := vt
			add("ClaimReward("+vt.n+")", "claimreward", func(w *World) sdk.Msg {
				if id := lastDisputeID(w); id != 0 {
					return MsgClaimReward(vt.u.Acc, id)
				}
				return nil
			})
		}
		for _, p := range []struct {
			n string
			u *User
		}{{"Payer", c.Payer}, {"R2", c.R2}, {"Tipper", c.Tipper}, {"S1", c.S1}, {"S3", c.S3}} {
			p := p
			add("FeeRefund("+p.n+")", "feerefund", func(w *World) sdk.Msg {
				if id := lastDisputeID(w); id != 0 {
					return MsgFeeRefund(c.Tipper.Acc, p.u.Acc, id)
				}
				return nil
			})
		}
		add("FeeRefund(Payer,first)", "feerefund/first", func(w *World) sdk.Msg {
			if lastDisputeID(w) > 1 {
				return MsgFeeRefund(c.Tipper.Acc, c.Payer.Acc, 1)
			}
			return nil
		})
		add("AddEvidence(Payer,last,R2rep)", "addevidence", func(w *World) sdk.Msg {
			id := lastDisputeID(w)
			r := firstReportBy(w, c.R2.Acc)
			if id == 0 || r == nil {
				return nil
			}
			return MsgAddEvidence(c.Payer.Acc, id, *r)
		})
		add("UpdateTeam(team->Payer)", "updateteam", func(w *World) sdk.Msg { return MsgUpdateTeam(w.Team.Acc, c.Payer.Acc) })
		add("UpdateTeam(Payer->Payer)", "updateteam/nonauth", func(w *World) sdk.Msg { return MsgUpdateTeam(c.Payer.Acc, c.Payer.Acc) })

		// ---- bridge
		for _, rc := range []struct{ n, r string }{{"20b", strings.Repeat("ab", 20)}, {"empty", ""}, {"19b", strings.Repeat("ab", 19)}, {"40b", strings.Repeat("ab", 40)}, {"0x", "0x" + strings.Repeat("ab", 20)}, {"nonhex", "zz"}} {
			rc := rc
			add("WithdrawTokens(Tipper,"+rc.n+",1e6)", "withdraw/"+rc.n, func(w *World) sdk.Msg { return MsgWithdrawTokens(c.Tipper.Acc, rc.r, TRB) })
		}
		add("WithdrawTokens(Tipper,20b,1)", "withdraw/1", func(w *World) sdk.Msg { return MsgWithdrawTokens(c.Tipper.Acc, strings.Repeat("ab", 20), 1) })
		add("WithdrawTokens(Tipper,20b,overbalance)", "withdraw/overbalance", func(w *World) sdk.Msg {
			return MsgWithdrawTokens(c.Tipper.Acc, strings.Repeat("ab", 20), w.Bal(c.Tipper.Acc).Int64()+1)
		})
		add("ClaimDeposits(Payer,[1],[0])", "claim/1", func(w *World) sdk.Msg { return MsgClaimDeposits(c.Payer.Acc, []uint64{1}, []uint64{0}) })
		add("ClaimDeposits(Payer,[1,1],[0,0])", "claim/dup", func(w *World) sdk.Msg { return MsgClaimDeposits(c.Payer.Acc, []uint64{1, 1}, []uint64{0, 0}) })
		add("ClaimDeposits(Payer,[1],[])", "claim/mismatch", func(w *World) sdk.Msg { return MsgClaimDeposits(c.Payer.Acc, []uint64{1}, nil) })
		add("ClaimDeposits(Payer,[before1],[0])", "claim/unknown", func(w *World) sdk.Msg {
			b, _ := DepositIDsAround(1)
			return MsgClaimDeposits(c.Payer.Acc, []uint64{b}, []uint64{0})
		})
		add("ClaimDeposits(Payer,[after1],[0])", "claim/unknown", func(w *World) sdk.Msg {
			_, a := DepositIDsAround(1)
			return MsgClaimDeposits(c.Payer.Acc, []uint64{a}, []uint64{0})
		})
		add("ClaimDeposits(Payer,[2],[0])", "claim/unknown", func(w *World) sdk.Msg { return MsgClaimDeposits(c.Payer.Acc, []uint64{2}, []uint64{0}) })
		add("RequestAttest(eth,last)", "attest/last", func(w *World) sdk.Msg {
			for _, a := range w.Aggregates() {
				return MsgRequestAttest(c.Payer.Acc, a.QueryId, a.Ts)
			}
			return nil
		})
		for _, pos := range []string{"first", "middle", "last"} {
			pos := pos
			add("RequestAttest(modeq,"+pos+")", "attest/"+pos, func(w *World) sdk.Msg {
				var l []AggKV
				for _, a := range w.Aggregates() {
					if bytes.Equal(a.QueryId, QID(c.ModeQ)) {
						l = append(l, a)
					}
				}
				if len(l) == 0 {
					return nil
				}
				a := l[0]
				switch pos {
				case "middle":
					a = l[len(l)/2]
				case "last":
					a = l[len(l)-1]
				}
				return MsgRequestAttest(c.Payer.Acc, a.QueryId, a.Ts)
			})
		}
		add("RequestAttest(eth,0)", "attest/0", func(w *World) sdk.Msg { return MsgRequestAttest(c.Payer.Acc, QID(c.ETH), 0) })
		add("RequestAttest(badhex)", "attest/badhex", func(w *World) sdk.Msg {
			m := MsgRequestAttest(c.Payer.Acc, QID(c.ETH), 0)
			return m
		})
		add("SnapshotLimit(gov,0)", "snapshotlimit/0", func(w *World) sdk.Msg { return MsgSnapshotLimit(w.Gov, 0) })
		add("SnapshotLimit(user,5)", "snapshotlimit/nonauth", func(w *World) sdk.Msg { return MsgSnapshotLimit(c.Payer.Acc.String(), 5) })

		// ---- mint
		add("MintInit(gov)", "mintinit", func(w *World) sdk.Msg { return MsgMintInit(w.Gov) })
		add("MintInit(user)", "mintinit/nonauth", func(w *World) sdk.Msg { return MsgMintInit(c.Payer.Acc.String()) })
		_ = hex.EncodeToString
		return evs
	}
}

// BlockAlphabet is the Δt alphabet as events.
func BlockAlphabet() []Event {
	var evs []Event
	for _, d := range Times {
		evs = append(evs, BlockEv(d))
	}
	return evs
}

// WithBlocks appends the Δt alphabet to an alphabet.
func WithBlocks(a func(w *World) []Event) func(w *World) []Event {
	bl := BlockAlphabet()
	return func(w *World) []Event { return append(a(w), bl...) }
}

// EnvEvents are environment events outside the message alphabet: a validator is slashed 1% by x/slashing
// evidence handling (staking keeper Slash), which makes its tokens-per-share rate differ from 1.
func EnvEvents(w0 *World) []Event {
	var evs []Event
	for i, v := range w0.Vals {
		if i > 1 {
			break
		}
		v := v
		evs = append(evs, Event{Label: "Slash(" + v.Name + ",1%)", Tag: "env/slash", Apply: func(w *World) Outcome {
			sv, err := w.App.StakingKeeper.GetValidator(w.Ctx, v.Val)
			if err != nil || !sv.IsBonded() {
				return Outcome{Kind: "tx-rej", Err: "not bonded"}
			}
			ca, _ := sv.GetConsAddr()
			if _, err := w.App.StakingKeeper.Slash(w.Ctx, ca, w.Height(), sv.GetConsensusPower(sdk.DefaultPowerReduction), math.LegacyNewDecWithPrec(1, 2)); err != nil {
				return Outcome{Kind: "tx-rej", Err: err.Error()}
			}
			return Outcome{Kind: "env"}
		}})
	}
	// downtime as x/slashing handles it: the validator is jailed and starts unbonding at the end of the block
	v2 := w0.Vals[1]
	evs = append(evs, Event{Label: "Jail(" + v2.Name + ")", Tag: "env/jail", Apply: func(w *World) Outcome {
		sv, err := w.App.StakingKeeper.GetValidator(w.Ctx, v2.Val)
		if err != nil || !sv.IsBonded() || sv.Jailed {
			return Outcome{Kind: "tx-rej", Err: "not bonded"}
		}
		ca, _ := sv.GetConsAddr()
		if err := w.App.StakingKeeper.Jail(w.Ctx, ca); err != nil {
			return Outcome{Kind: "tx-rej", Err: err.Error()}
		}
		return Outcome{Kind: "env"}
	}})
	return evs
}
