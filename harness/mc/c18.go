//go:build verif

package mc

import (
	"context"
	"fmt"
	"strings"
	"time"

	rante "github.com/tellor-io/layer/x/reporter/ante"
	reportertypes "github.com/tellor-io/layer/x/reporter/types"

	"cosmossdk.io/math"

	sdk "github.com/cosmos/cosmos-sdk/types"
	stakingtypes "github.com/cosmos/cosmos-sdk/x/staking/types"
)

func init() {
	Register("C18", &CheckInfo{
		Fn: checkC18, Level: "model_checking",
		Rule: "(a) every transaction of 1..3 (quick) / 1..4 (thorough) messages over {CreateValidator, Delegate, BeginRedelegate, CancelUnbondingDelegation, Undelegate, bank Send} x amounts {1, 5%, 5%+1, 6% of baseline, remaining headroom+1 upwards / downwards from the current total} x current/baseline in {0.96,1,1.04} x baseline in {0,20,1e9+7} is offered to the real TrackStakeChangesDecorator (real reporter keeper and tracker store, current bonded total supplied by a stub); oracle (one direction, as stated): admitted => bonded+sum(adds) <= 105% and bonded-sum(undelegations) >= 95% of the baseline; (b) tracker monitor on all <=k-deviation histories around the shared skeletons: the recorded baseline/expiry change only at an EndBlock whose block time is >= the stored expiry, and then to the bonded total of that moment",
		QuickBudget: 10 * time.Minute, ThoroughBudget: 15 * time.Minute,
	})
}

type stubSK struct {
	reportertypes.StakingKeeper
	cur math.Int
}

func (s stubSK) TotalBondedTokens(context.Context) (math.Int, error) { return s.cur, nil }

// TrackerMonitor: the stake tracker changes only at an EndBlock at/after its expiry.
type TrackerMonitor struct{}

func (TrackerMonitor) Pre(w *World) interface{} {
	t, err := w.App.ReporterKeeper.Tracker.Get(w.Ctx)
	if err != nil {
		return nil
	}
	return &t
}

func (TrackerMonitor) Post(e *Explorer, before, w *World, pre interface{}, ev *Event, out Outcome) {
	if pre == nil || out.Kind == "halt" {
		return
	}
	old := pre.(*reportertypes.StakeTracker)
	now, err := w.App.ReporterKeeper.Tracker.Get(w.Ctx)
	if err != nil {
		e.Violate(w, "tracker-lost", "tracker|lost", "stake tracker disappeared after "+ev.Label)
		return
	}
	changed := !now.Amount.Equal(old.Amount) || !now.Expiration.Equal(*old.Expiration)
	if !changed {
		if out.Kind == "block" && !before.Time().Before(*old.Expiration) {
			e.Violate(w, "tracker-not-refreshed", "tracker|not-refreshed", fmt.Sprintf("EndBlock at %s is past the expiry %s but the baseline was not refreshed", before.Time(), old.Expiration))
		}
		return
	}
	if out.Kind != "block" {
		e.Violate(w, "tracker-changed-by-tx", "tracker|changed-by-tx|"+evClass(ev), "stake tracker changed by a transaction: "+ev.Label)
		return
	}
	e.RC.Count("tracker_refreshes", 1)
	if before.Time().Before(*old.Expiration) {
		e.Violate(w, "tracker-refreshed-early", "tracker|refreshed-early", fmt.Sprintf("baseline refreshed at %s before its expiry %s", before.Time(), old.Expiration))
	}
	if want := before.Time().Add(12 * time.Hour); !now.Expiration.Equal(want) {
		e.Violate(w, "tracker-expiry", "tracker|expiry", fmt.Sprintf("new expiry %s, want %s", now.Expiration, want))
	}
}

func checkC18(rc *RunCtx) {
	if rc.Replay == nil || rc.Replay.Scenario == "ante-enum" {
		c18Enum(rc)
		if rc.Replay != nil {
			return
		}
	}
	runSkeletons(rc, []Monitor{TrackerMonitor{}}, kOf(rc))
}

func c18Enum(rc *RunCtx) {
	w := NewWorld(Config{})
	StdSetup(w, false)
	maxMsgs := 3
	if !rc.Quick() {
		maxMsgs = 4
	}
	u, v1, v2 := w.Usr[0].Acc, w.Vals[0], w.Vals[1]
	kinds := []string{"createval", "delegate", "redelegate", "cancelunbond", "undelegate", "send"}
	mkMsg := func(kind string, amt math.Int) sdk.Msg {
		c := sdk.NewCoin(Denom, amt)
		switch kind {
		case "createval":
			return &stakingtypes.MsgCreateValidator{ValidatorAddress: v1.Val.String(), Value: c}
		case "delegate":
			return &stakingtypes.MsgDelegate{DelegatorAddress: u.String(), ValidatorAddress: v1.Val.String(), Amount: c}
		case "redelegate":
			return &stakingtypes.MsgBeginRedelegate{DelegatorAddress: u.String(), ValidatorSrcAddress: v1.Val.String(), ValidatorDstAddress: v2.Val.String(), Amount: c}
		case "cancelunbond":
			return &stakingtypes.MsgCancelUnbondingDelegation{DelegatorAddress: u.String(), ValidatorAddress: v1.Val.String(), Amount: c, CreationHeight: 1}
		case "undelegate":
			return &stakingtypes.MsgUndelegate{DelegatorAddress: u.String(), ValidatorAddress: v1.Val.String(), Amount: c}
		}
		return MsgSend(u, w.Usr[1].Acc, 1)
	}
	type item struct {
		kind string
		amt  math.Int
	}
	exp := w.Time().Add(time.Hour)
	for _, base := range []int64{0, 20, 1_000_000_007} {
		baseline := math.NewInt(base)
		fivePct := baseline.QuoRaw(20)
		for _, ratio := range []int64{96, 100, 104} {
			cur := baseline.MulRaw(ratio).QuoRaw(100)
			// besides amounts relative to the baseline: one unit beyond what is still allowed from the current total
			// (the bounds are anchored to the recorded amount, not to the current one)
			amts := []math.Int{math.OneInt(), fivePct, fivePct.AddRaw(1), baseline.MulRaw(6).QuoRaw(100)}
			if up := baseline.Add(fivePct).Sub(cur); up.IsPositive() {
				amts = append(amts, up.AddRaw(1))
			}
			if down := cur.Sub(baseline.Sub(fivePct)); down.IsPositive() {
				amts = append(amts, down.AddRaw(1))
			}
			if err := w.App.ReporterKeeper.Tracker.Set(w.Ctx, reportertypes.StakeTracker{Expiration: &exp, Amount: baseline}); err != nil {
				panic(err)
			}
			dec := rante.NewTrackStakeChangesDecorator(w.App.ReporterKeeper, stubSK{StakingKeeper: w.App.StakingKeeper, cur: cur})
			var items []item
			for _, k := range kinds {
				if k == "send" {
					items = append(items, item{k, math.ZeroInt()})
					continue
				}
				for _, a := range amts {
					items = append(items, item{k, a})
				}
			}
			var rec func(cur2 []item)
			rec = func(tx []item) {
				if len(tx) > 0 {
					if rc.Mine() {
						var msgs []sdk.Msg
						adds, unds := math.ZeroInt(), math.ZeroInt()
						var desc []string
						staking := 0
						for _, it := range tx {
							msgs = append(msgs, mkMsg(it.kind, it.amt))
							desc = append(desc, it.kind+":"+it.amt.String())
							switch it.kind {
							case "undelegate":
								unds = unds.Add(it.amt)
								staking++
							case "send":
							default:
								adds = adds.Add(it.amt)
								staking++
							}
						}
						_, err := dec.AnteHandle(w.Ctx, mockTx{msgs}, false, func(c sdk.Context, _ sdk.Tx, _ bool) (sdk.Context, error) { return c, nil })
						rc.Count("executions", 1)
						rc.Count("states", 1)
						rc.Count("transitions", 1)
						if err == nil {
							rc.Count("admitted", 1)
							upper, lower := baseline.Add(fivePct), baseline.Sub(fivePct)
							if cur.Add(adds).GT(upper) || cur.Sub(unds).LT(lower) {
								cls := "single"
								if staking > 1 {
									cls = "combined"
								}
								rc.Violate(Violation{Oracle: "admitted-beyond-5pct", Sig: "ante|admitted-beyond-5pct|" + cls,
									Detail:   fmt.Sprintf("baseline=%s bonded=%s tx=[%s]: adds=%s undelegations=%s admitted although bounds are [%s,%s]", baseline, cur, strings.Join(desc, ", "), adds, unds, lower, upper),
									Scenario: "ante-enum", Trace: desc, NDev: len(tx)})
							}
						} else {
							rc.Count("rejected", 1)
						}
						if len(tx) == 2 {
							rc.Sample(map[string]interface{}{"baseline": baseline.String(), "bonded": cur.String(), "tx": desc, "admitted": err == nil})
						}
					}
				}
				if len(tx) == maxMsgs {
					return
				}
				for _, it := range items {
					rec(append(append([]item(nil), tx...), it))
				}
			}
			rec(nil)
		}
	}
}
