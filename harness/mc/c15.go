//go:build verif

package mc

import (
	"bytes"
	"crypto/sha256"
	"encoding/hex"
	"fmt"
	"math/big"
	"strings"
	"time"

	ethcrypto "github.com/ethereum/go-ethereum/crypto"
	bridgetypes "github.com/tellor-io/layer/x/bridge/types"

	"cosmossdk.io/math"

	"github.com/cosmos/cosmos-sdk/crypto/keys/secp256k1"
	sdk "github.com/cosmos/cosmos-sdk/types"
)

func init() {
	Register("C15", &CheckInfo{
		Fn: checkC15, Level: "exploration", Serial: false,
		Rule: "full products of small boundary alphabets per encoder, each compared byte-for-byte with an independent implementation (from-scratch keccak-f[1600] and ABI head/tail encoder) driven by the struct layouts, constants and abi.encode argument lists parsed out of BlobstreamO.sol / Constants.sol / TokenBridge.sol on every run: validator sets of 0..4 (quick) / 0..5 full, 6..8 reduced, 100 once (thorough) members over addresses {00..,ff..,mixed} x powers {0,1,2^63-1,2^64-1}; checkpoints over threshold/timestamp {0,1,2^64-1} x 3 hashes; attestation digests over value lengths {0,1,31,32,33,64,65} x timestamps/powers {0,1,2^64-1}; deposit/withdrawal query ids {0,1,2^64-1}; withdrawal values over recipients of 0/19/20/21/40 bytes x 3 senders x amounts {1,1e6,2^63-1}; power threshold vs floor(2*total/3); signatures made like extend_vote accepted by a transcription of _verifySig and by EVMAddressFromSignatures; non-trivial = input with at least one non-zero field; distinct = distinct input tuples",
		Assume:      []string{"no solc/EVM in the image: agreement is with an independent implementation of the ABI specification applied to the parsed contract text, not with executed bytecode", "ecrecover reuses go-ethereum's secp256k1", "the deposit query id has no expression in the contracts; it is taken as the withdrawal expression with the boolean flipped"},
		QuickBudget: 10 * time.Minute, ThoroughBudget: 15 * time.Minute,
	})
}

func u64(n uint64) *big.Int { return new(big.Int).SetUint64(n) }

func (m *SolModel) bind(args [][2]string, env map[string]AbiVal) []AbiVal {
	var out []AbiVal
	for _, a := range args {
		typ, expr := a[0], a[1]
		if c, ok := m.Constants[expr]; ok {
			out = append(out, AbiVal{Type: "bytes32", Bytes: c})
			continue
		}
		if strings.HasPrefix(expr, `"`) {
			out = append(out, AbiVal{Type: "string", Bytes: []byte(strings.Trim(expr, `"`))})
			continue
		}
		v, ok := env[expr]
		if !ok {
			panic("C15: no binding for contract expression " + expr)
		}
		v.Type = typ
		if strings.HasPrefix(typ, "uint") && v.Int == nil {
			panic("C15: binding for " + expr + " is not an integer")
		}
		out = append(out, v)
	}
	return out
}

func (m *SolModel) valsetVal(set []*bridgetypes.BridgeValidator) AbiVal {
	if m.ValsetHashArg != "Validator[]" {
		panic("C15: unexpected valset hash argument type " + m.ValsetHashArg)
	}
	arr := AbiVal{Type: "Validator[]"}
	for _, v := range set {
		t := AbiVal{Type: "tuple"}
		for _, f := range m.Structs["Validator"] {
			switch f[1] {
			case "addr":
				t.Fields = append(t.Fields, AbiVal{Type: f[0], Bytes: v.EthereumAddress})
			case "power":
				t.Fields = append(t.Fields, AbiVal{Type: f[0], Int: u64(v.Power)})
			default:
				panic("C15: unknown Validator field " + f[1])
			}
		}
		arr.Elems = append(arr.Elems, t)
	}
	return arr
}

// SnapshotDigestMonitor: every attestation snapshot the chain creates (at aggregation and on MsgRequestAttestations) is keyed
// by the digest validators sign; that key must be what the contract computes from the fields the chain serves for it.
type SnapshotDigestMonitor struct{ model *SolModel }

func (SnapshotDigestMonitor) Pre(w *World) interface{} {
	old := map[string]bool{}
	_ = w.App.BridgeKeeper.AttestSnapshotDataMap.Walk(w.Ctx, nil, func(k []byte, _ bridgetypes.AttestationSnapshotData) (bool, error) {
		old[string(k)] = true
		return false, nil
	})
	return old
}

func (m SnapshotDigestMonitor) Post(e *Explorer, before, w *World, pre interface{}, ev *Event, out Outcome) {
	if out.Kind == "tx-rej" || out.Kind == "halt" {
		return
	}
	old := pre.(map[string]bool)
	aggs := w.Aggregates()
	_ = w.App.BridgeKeeper.AttestSnapshotDataMap.Walk(w.Ctx, nil, func(k []byte, d bridgetypes.AttestationSnapshotData) (bool, error) {
		if old[string(k)] {
			return false, nil
		}
		e.RC.Count("chain_snapshots_checked", 1)
		var agg *AggKV
		for i := range aggs {
			if bytes.Equal(aggs[i].QueryId, d.QueryId) && aggs[i].Ts == d.Timestamp {
				agg = &aggs[i]
			}
		}
		if agg == nil {
			e.Violate(w, "snapshot-without-aggregate", "encoding|snapshot-without-aggregate", fmt.Sprintf("attestation snapshot for %x.. at %d has no aggregate (after %s)", d.QueryId[:4], d.Timestamp, ev.Label))
			return false, nil
		}
		val, err := hex.DecodeString(strings.TrimPrefix(strings.TrimPrefix(agg.Agg.AggregateValue, "0x"), "0X"))
		if err != nil {
			return false, nil // not a byte string the contract could receive
		}
		want := RefKeccak256(AbiEncode(m.model.bind(m.model.DigestArgs, map[string]AbiVal{
			"_attestData.queryId": {Bytes: d.QueryId}, "_attestData.report.value": {Bytes: val},
			"_attestData.report.timestamp": {Int: u64(d.Timestamp)}, "_attestData.report.aggregatePower": {Int: u64(agg.Agg.ReporterPower)},
			"_attestData.report.previousTimestamp": {Int: u64(d.PrevReportTimestamp)}, "_attestData.report.nextTimestamp": {Int: u64(d.NextReportTimestamp)},
			"lastValidatorSetCheckpoint": {Bytes: d.ValidatorCheckpoint}, "_attestData.attestationTimestamp": {Int: u64(d.AttestationTimestamp)}})...))
		if !bytes.Equal(k, want) {
			cls := "at-aggregation"
			if d.AttestationTimestamp != d.Timestamp {
				cls = "later-request"
			}
			e.Violate(w, "chain-snapshot-digest|"+cls, "encoding|chain-snapshot-digest|"+cls,
				fmt.Sprintf("snapshot %x of %x.. (report ts %d, attestation ts %d) is not the contract digest %x of the served fields (after %s)", k, d.QueryId[:4], d.Timestamp, d.AttestationTimestamp, want, ev.Label))
		}
		return false, nil
	})
}

func checkC15(rc *RunCtx) {
	model := LoadSolModel(RepoDir() + "/evm/contracts")
	rc.Sample(map[string]interface{}{"contract_model": model.String()})
	// stateful part: the digests the chain itself produces along the shared skeletons (+ deviations); it runs after the
	// enumerations because it is the part a deadline may cut short
	stateful := func() {
		runSkeletons(rc, []Monitor{SnapshotDigestMonitor{model: model}}, kOf(rc), "round", "bridge", "deposit-closing", "dispute-sibling")
	}
	if rc.Replay != nil && isSkeleton(rc.Replay.Scenario) {
		stateful()
		return
	}
	defer func() {
		if rc.Replay == nil {
			stateful()
		}
	}()
	w := NewWorld(Config{})
	StdSetup(w, false)
	bk := w.App.BridgeKeeper
	ctx := w.Ctx
	seen := map[string]bool{}
	eval := func(kind string, key string, nontrivial bool, got, want []byte, detail func() string) {
		rc.Count("evaluations", 1)
		rc.Count("evaluations_"+kind, 1)
		if nontrivial && !seen[kind+key] {
			seen[kind+key] = true
			rc.Count("distinct_nontrivial", 1)
		}
		if !bytes.Equal(got, want) {
			rc.Violate(Violation{Oracle: kind, Sig: "encoding|" + kind, Detail: fmt.Sprintf("%s: chain=%x contract-reference=%x", detail(), got, want), Scenario: "enc", Trace: []string{detail()}})
		}
	}
	big64 := []uint64{0, 1, 1<<64 - 1}

	// --- validator set hash + threshold ---
	addrs := [][]byte{make([]byte, 20), bytes.Repeat([]byte{0xff}, 20), {0x01, 0x23, 0x45, 0x67, 0x89, 0xab, 0xcd, 0xef, 0x10, 0x32, 0x54, 0x76, 0x98, 0xba, 0xdc, 0xfe, 0x00, 0xff, 0x80, 0x7f}}
	powers := []uint64{0, 1, 1_000_000_000_000_000_000, 1<<63 - 1, 1<<64 - 1} // 10^18: beyond 18-decimal fixed point, total still below 2^62
	var members []*bridgetypes.BridgeValidator
	for _, a := range addrs {
		for _, p := range powers {
			members = append(members, &bridgetypes.BridgeValidator{EthereumAddress: a, Power: p})
		}
	}
	checkSet := func(set []*bridgetypes.BridgeValidator) {
		if !rc.Mine() {
			return
		}
		_, h, err := bk.EncodeAndHashValidatorSet(ctx, &bridgetypes.BridgeValidatorSet{BridgeValidatorSet: set})
		if err != nil {
			h = []byte("error: " + err.Error())
		}
		want := RefKeccak256(AbiEncode(model.valsetVal(set)))
		key := fmt.Sprint(set)
		eval("valset-hash", key, len(set) > 0, h, want, func() string { return "validator set " + key })
		// threshold (only where the total fits the chain's uint64 arithmetic)
		tot := new(big.Int)
		for _, v := range set {
			tot.Add(tot, u64(v.Power))
		}
		if len(set) > 0 && tot.BitLen() <= 62 {
			f := w.Fork()
			if err := f.App.BridgeKeeper.SetBridgeValidatorParams(f.Ctx, &bridgetypes.BridgeValidatorSet{BridgeValidatorSet: set}); err == nil {
				ts := uint64(f.Ctx.BlockTime().UnixMilli())
				if p, err := f.App.BridgeKeeper.ValidatorCheckpointParamsMap.Get(f.Ctx, ts); err == nil {
					wantThr := new(big.Int).Div(new(big.Int).Mul(tot, big.NewInt(2)), big.NewInt(3))
					eval("threshold", key, true, u64(p.PowerThreshold).Bytes(), wantThr.Bytes(), func() string { return "power threshold of " + key })
					// stored checkpoint is consistent with the stored hash/threshold/timestamp
					wantCp := RefKeccak256(AbiEncode(model.bind(model.CheckpointArgs, map[string]AbiVal{
						"_powerThreshold": {Int: u64(p.PowerThreshold)}, "_validatorTimestamp": {Int: u64(ts)}, "_validatorSetHash": {Bytes: want}})...))
					eval("stored-checkpoint", key, true, p.Checkpoint, wantCp, func() string { return "stored checkpoint of " + key })
				}
			}
		}
	}
	maxFull := 4
	if !rc.Quick() {
		maxFull = 5
	}
	var rec func(n int, cur []*bridgetypes.BridgeValidator, pool []*bridgetypes.BridgeValidator)
	rec = func(n int, cur []*bridgetypes.BridgeValidator, pool []*bridgetypes.BridgeValidator) {
		if rc.TimeUp() {
			rc.Cap()
			return
		}
		if len(cur) == n {
			checkSet(append([]*bridgetypes.BridgeValidator(nil), cur...))
			return
		}
		for _, m := range pool {
			rec(n, append(cur, m), pool)
		}
	}
	for n := 0; n <= maxFull; n++ {
		rec(n, nil, members)
	}
	if !rc.Quick() {
		reduced := []*bridgetypes.BridgeValidator{members[1], members[6], members[10], members[3]}
		for n := 6; n <= 8; n++ {
			rec(n, nil, reduced)
		}
		var big100 []*bridgetypes.BridgeValidator
		for i := 0; i < 100; i++ {
			a := make([]byte, 20)
			a[19], a[0] = byte(i), byte(255-i)
			big100 = append(big100, &bridgetypes.BridgeValidator{EthereumAddress: a, Power: uint64(i+1) * 1_000_003})
		}
		checkSet(big100)
	}

	// --- checkpoint ---
	hashes := [][]byte{make([]byte, 32), bytes.Repeat([]byte{0xff}, 32), RefKeccak256([]byte("x"))}
	for _, thr := range big64 {
		for _, ts := range big64 {
			for _, h := range hashes {
				if !rc.Mine() {
					continue
				}
				f := w.Fork()
				got, err := f.App.BridgeKeeper.CalculateValidatorSetCheckpoint(f.Ctx, thr, ts, h)
				if err != nil {
					got = []byte("error: " + err.Error())
				}
				want := RefKeccak256(AbiEncode(model.bind(model.CheckpointArgs, map[string]AbiVal{
					"_powerThreshold": {Int: u64(thr)}, "_validatorTimestamp": {Int: u64(ts)}, "_validatorSetHash": {Bytes: h}})...))
				eval("checkpoint", fmt.Sprintf("%d/%d/%x", thr, ts, h), thr+ts > 0, got, want, func() string { return fmt.Sprintf("checkpoint(thr=%d,ts=%d,hash=%x)", thr, ts, h) })
			}
		}
	}

	// --- attestation digest ---
	qids := [][]byte{QID(SpotQuery("eth", "usd")), bytes.Repeat([]byte{0xff}, 32)}
	for _, qid := range qids {
		for _, vl := range []int{0, 1, 31, 32, 33, 64, 65} {
			val := make([]byte, vl)
			for i := range val {
				val[i] = byte(i*7 + 1)
			}
			for _, ts := range big64 {
				for _, pw := range big64 {
					for _, prev := range big64 {
						for _, next := range big64 {
							for _, cp := range hashes[1:] {
								for _, ats := range big64 {
									if !rc.Mine() {
										continue
									}
									got, err := bk.EncodeOracleAttestationData(qid, hex.EncodeToString(val), ts, pw, prev, next, cp, ats)
									if err != nil {
										got = []byte("error: " + err.Error())
									}
									want := RefKeccak256(AbiEncode(model.bind(model.DigestArgs, map[string]AbiVal{
										"_attestData.queryId": {Bytes: qid}, "_attestData.report.value": {Bytes: val},
										"_attestData.report.timestamp": {Int: u64(ts)}, "_attestData.report.aggregatePower": {Int: u64(pw)},
										"_attestData.report.previousTimestamp": {Int: u64(prev)}, "_attestData.report.nextTimestamp": {Int: u64(next)},
										"lastValidatorSetCheckpoint": {Bytes: cp}, "_attestData.attestationTimestamp": {Int: u64(ats)}})...))
									eval("attestation-digest", fmt.Sprintf("%x/%d/%d/%d/%d/%d/%x/%d", qid[:2], vl, ts, pw, prev, next, cp[:2], ats), true, got, want,
										func() string {
											return fmt.Sprintf("attestation(qid=%x.., value %d bytes, ts=%d, power=%d, prev=%d, next=%d, attTs=%d)", qid[:4], vl, ts, pw, prev, next, ats)
										})
								}
							}
						}
					}
				}
			}
		}
	}

	if rc.Worker != 0 {
		return // the remaining small products are evaluated by one worker
	}
	// --- deposit / withdrawal query ids ---
	for _, id := range big64 {
		for _, toLayer := range []bool{false, true} {
			inner := []AbiVal{}
			for _, a := range model.WithdrawInner {
				switch a[0] {
				case "bool":
					inner = append(inner, AbiVal{Type: "bool", Bool: toLayer})
				default:
					inner = append(inner, AbiVal{Type: a[0], Int: u64(id)})
				}
			}
			var outer []AbiVal
			for _, a := range model.WithdrawQuery {
				if a[0] == "bytes" {
					outer = append(outer, AbiVal{Type: "bytes", Bytes: AbiEncode(inner...)})
				} else {
					outer = append(outer, AbiVal{Type: "string", Bytes: []byte(strings.Trim(a[1], `"`))})
				}
			}
			want := RefKeccak256(AbiEncode(outer...))
			var got []byte
			var err error
			if toLayer {
				got, err = bk.GetDepositQueryId(id)
			} else {
				got, err = bk.GetWithdrawalQueryId(id)
			}
			if err != nil {
				got = []byte("error: " + err.Error())
			}
			eval("bridge-query-id", fmt.Sprintf("%v/%d", toLayer, id), true, got, want, func() string { return fmt.Sprintf("query id(toLayer=%v,id=%d)", toLayer, id) })
			// and the harness' own query-data builder hashes to the same id (used by the stateful checks)
			eval("bridge-query-data", fmt.Sprintf("%v/%d", toLayer, id), true, QID(BridgeQuery(toLayer, id)), want, func() string { return "harness BridgeQuery" })
		}
	}

	// --- withdrawal report value ---
	if len(model.WithdrawDecode) != 4 {
		rc.HarnessError("C15: could not extract abi.decode types of withdrawFromLayer")
	}
	for _, rl := range []int{0, 19, 20, 21, 40} {
		rcp := make([]byte, rl)
		for i := range rcp {
			rcp[i] = byte(0xa0 + i)
		}
		for _, sender := range []sdk.AccAddress{w.Usr[0].Acc, bytes.Repeat([]byte{0}, 20), bytes.Repeat([]byte{0xff}, 32)} {
			for _, amt := range []uint64{1, 1_000_000, 1<<63 - 1} {
				got, err := bk.GetWithdrawalReportValue(sdk.NewCoin(Denom, math.NewIntFromUint64(amt)), sender, rcp)
				if err != nil {
					got = []byte("error: " + err.Error())
				}
				// what the contract decodes as (address, string, uint256, uint256): address = low 20 bytes of the recipient
				a20 := make([]byte, 20)
				if len(rcp) >= 20 {
					copy(a20, rcp[len(rcp)-20:])
				} else {
					copy(a20[20-len(rcp):], rcp)
				}
				vals := []AbiVal{{Type: model.WithdrawDecode[0], Bytes: a20}, {Type: model.WithdrawDecode[1], Bytes: []byte(sender.String())},
					{Type: model.WithdrawDecode[2], Int: u64(amt)}, {Type: model.WithdrawDecode[3], Int: u64(0)}}
				eval("withdrawal-value", fmt.Sprintf("%d/%x/%d", rl, sender.Bytes()[:2], amt), true, got, AbiEncode(vals...),
					func() string { return fmt.Sprintf("withdrawal value(recipient %d bytes, sender %s, amount %d)", rl, short(sender.String()), amt) })
			}
		}
	}

	// --- signature convention ---
	if model.SigPrehash != "sha256" {
		rc.Violate(Violation{Oracle: "sig-convention", Sig: "encoding|sig-convention-source", Detail: "contract _verifySig no longer hashes the digest with sha256 before ecrecover", Scenario: "enc"})
	}
	for i, v := range w.Vals {
		key := secp256k1.PrivKey{Key: v.EVMPriv}
		for _, cp := range hashes {
			sig, err := key.Sign(cp) // what the keyring does in extend_vote.SignMessage: sha256 then sign, 64 bytes r||s
			if err != nil {
				panic(err)
			}
			pre := sha256.Sum256(cp)
			ok := false
			for _, vv := range []byte{0, 1} { // the relayer supplies v = 27/28
				pub, err := ethcrypto.SigToPub(pre[:], append(append([]byte(nil), sig[:64]...), vv))
				if err == nil && bytes.Equal(ethcrypto.PubkeyToAddress(*pub).Bytes(), v.EVMAddr) {
					ok = true
				}
			}
			g := []byte{0}
			if ok {
				g = []byte{1}
			}
			eval("sig-accepted-by-contract", fmt.Sprintf("%d/%x", i, cp[:2]), true, g, []byte{1}, func() string { return fmt.Sprintf("signature of validator %d over %x recovered by _verifySig transcription", i, cp[:4]) })
		}
		// initial registration signatures
		hA, hB := sha256.Sum256([]byte("TellorLayer: Initial bridge signature A")), sha256.Sum256([]byte("TellorLayer: Initial bridge signature B"))
		sA, _ := key.Sign(hA[:])
		sB, _ := key.Sign(hB[:])
		addr, err := bk.EVMAddressFromSignatures(ctx, sA, sB)
		got := addr.Bytes()
		if err != nil {
			got = []byte("error: " + err.Error())
		}
		eval("initial-sig-address", fmt.Sprint(i), true, got, v.EVMAddr, func() string { return fmt.Sprintf("EVM address recovered from validator %d's initial signatures", i) })
	}
	// keccak self-test against the chain's library on a few inputs (guards the reference itself)
	for _, in := range [][]byte{nil, []byte("abc"), bytes.Repeat([]byte{0x5a}, 135), bytes.Repeat([]byte{0x5a}, 136), bytes.Repeat([]byte{0x5a}, 137), bytes.Repeat([]byte{1}, 1000)} {
		if !bytes.Equal(RefKeccak256(in), ethcrypto.Keccak256(in)) {
			rc.HarnessError(fmt.Sprintf("reference keccak disagrees with go-ethereum on %d bytes", len(in)))
		}
	}
}
