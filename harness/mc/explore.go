//go:build verif

package mc

import (
	"fmt"
	"os"
	"time"

	sdk "github.com/cosmos/cosmos-sdk/types"
)

// Outcome of applying one event.
type Outcome struct {
	Kind string // "tx-ok" | "tx-rej" | "block" | "halt" | "env"
	Err  string
	Pan  bool
}

// Event is one transition of a scenario alphabet.
type Event struct {
	Label string
	Apply func(w *World) Outcome
	Tag   string // free-form class used by monitors (e.g. message type)
	Msgs  func(w *World) []sdk.Msg // for Tx events: the messages (for monitors that inspect them)
}

// TxEv builds a transaction event whose messages may depend on the state.
func TxEv(label, tag string, mk func(w *World) []sdk.Msg) Event {
	return Event{Label: label, Tag: tag, Msgs: mk, Apply: func(w *World) Outcome {
		msgs := mk(w)
		if len(msgs) == 0 {
			return Outcome{Kind: "tx-rej", Err: "not applicable in this state"}
		}
		r := w.Tx(msgs...)
		if r.OK {
			return Outcome{Kind: "tx-ok"}
		}
		return Outcome{Kind: "tx-rej", Err: r.Err, Pan: r.Panic}
	}}
}

// BlockEv ends the current block and begins the next one dt later.
func BlockEv(dt time.Duration) Event {
	return Event{Label: "Block(" + dt.String() + ")", Tag: "block", Apply: func(w *World) Outcome {
		if w.Block(dt) {
			return Outcome{Kind: "block"}
		}
		return Outcome{Kind: "halt", Err: w.Halt.String(), Pan: w.Halt.Panic}
	}}
}

// Monitor is an oracle evaluated around every explored transition.
type Monitor interface {
	Pre(w *World) interface{}
	Post(e *Explorer, before *World, w *World, pre interface{}, ev *Event, out Outcome)
}

// Explorer runs exhaustive bounded searches over a scenario.
type Explorer struct {
	RC       *RunCtx
	Scenario string
	Monitors []Monitor
	// Horizon is the list of block gaps appended to every maximal history
	// ("run on to quiescence"); monitors are evaluated on those blocks too.
	Horizon []time.Duration
	// OnState is called once for every distinct state first reached.
	OnState func(w *World)
	visited map[[32]byte]int
	quiet   bool // do not count (skeleton prefix re-walked by every worker)
}

func (e *Explorer) Violate(w *World, oracle, sig, detail string) {
	e.RC.Violate(Violation{Oracle: oracle, Sig: sig, Detail: detail, Scenario: e.Scenario,
		Trace: append([]string(nil), w.Trace...), NDev: len(w.Devs)})
}

// Step applies ev on a fork of w (w is left untouched) and evaluates monitors.
func (e *Explorer) Step(w *World, ev Event) (*World, Outcome) {
	n := w.Fork()
	pres := make([]interface{}, len(e.Monitors))
	for i, m := range e.Monitors {
		pres[i] = m.Pre(w)
	}
	out := ev.Apply(n)
	n.Trace = append(n.Trace, ev.Label)
	if !e.quiet {
		e.RC.Count("transitions", 1)
		e.RC.Count("outcome_"+out.Kind, 1)
		if ev.Tag != "" && ev.Tag != "block" {
			e.RC.Count("tag_"+ev.Tag+"_"+out.Kind, 1)
		}
	}
	if out.Pan && out.Kind == "tx-rej" {
		e.RC.Distinct("recovered_tx_panics", evClass(&ev)+": "+NormErr(out.Err))
	}
	for i, m := range e.Monitors {
		m.Post(e, w, n, pres[i], &ev, out)
	}
	return n, out
}

// RunHorizon appends the horizon blocks to w (on a throw-away fork).
func (e *Explorer) RunHorizon(w *World) {
	cur := w
	for _, dt := range e.Horizon {
		n, out := e.Step(cur, BlockEv(dt))
		if out.Kind == "halt" {
			return
		}
		cur = n
	}
	e.RC.Count("executions", 1)
}

func (e *Explorer) seen(w *World, remaining int) bool {
	if e.visited == nil {
		e.visited = map[[32]byte]int{}
	}
	h := w.StateHash()
	if r, ok := e.visited[h]; ok && r >= remaining {
		e.RC.Count("dedup_hits", 1)
		return true
	} else if !ok {
		e.RC.Count("states", 1)
		if e.OnState != nil {
			e.OnState(w)
		}
	}
	e.visited[h] = remaining
	return false
}

// DFS explores every event sequence of length <= depth over the (state
// dependent) alphabet, pruning states already explored with at least as much
// remaining depth. Rejected transactions leave the state unchanged and are not
// extended. The horizon is run at every leaf and at every halted state.
func (e *Explorer) DFS(w *World, alphabet func(*World) []Event, depth int) {
	if e.RC.TimeUp() {
		e.RC.Cap()
		return
	}
	if e.seen(w, depth) {
		return
	}
	e.RC.Max("max_depth", int64(len(w.Trace)))
	if depth == 0 {
		e.RunHorizon(w)
		return
	}
	for _, ev := range alphabet(w) {
		n, out := e.Step(w, ev)
		switch out.Kind {
		case "tx-rej", "halt":
			continue
		}
		e.DFS(n, alphabet, depth-1)
	}
}

// Deviations explores every history that differs from the skeleton by at most
// k inserted or substituted events drawn from the alphabet; every history is
// run to the end of the skeleton and then through the horizon. The first
// deviation (position, event) is the unit of work sharded over workers.
func (e *Explorer) Deviations(w *World, skeleton []Event, alphabet func(*World) []Event, k int) {
	cur := w
	for i := 0; i <= len(skeleton); i++ {
		if e.RC.TimeUp() {
			e.RC.Cap()
			return
		}
		if k > 0 {
			base := cur.StateHash()
			for _, ev := range alphabet(cur) {
				if !e.RC.Mine() {
					continue
				}
				n, out := e.Step(cur, ev)
				if out.Kind == "tx-rej" || out.Kind == "halt" || n.StateHash() == base {
					continue
				}
				n.Devs = append(n.Devs, ev.Tag)
				e.RC.Count("deviations_applied", 1)
				e.dev(n, skeleton, i, alphabet, k-1) // insertion
				if i < len(skeleton) {
					e.dev(n, skeleton, i+1, alphabet, k-1) // substitution
				}
			}
		}
		if i == len(skeleton) {
			if e.RC.Mine() {
				e.RC.Count("states", 1)
				e.RunHorizon(cur)
			}
			return
		}
		e.quiet = e.RC.Worker != 0
		n, out := e.Step(cur, skeleton[i])
		e.quiet = false
		if out.Kind == "halt" {
			return
		}
		cur = n
	}
}

func (e *Explorer) dev(w *World, sk []Event, i int, alphabet func(*World) []Event, k int) {
	if e.RC.TimeUp() {
		e.RC.Cap()
		return
	}
	e.RC.Max("max_depth", int64(len(w.Trace)))
	if k > 0 {
		base := w.StateHash()
		for _, ev := range alphabet(w) {
			n, out := e.Step(w, ev)
			if out.Kind == "tx-rej" || out.Kind == "halt" || n.StateHash() == base {
				continue
			}
			n.Devs = append(n.Devs, ev.Tag)
			e.RC.Count("deviations_applied", 1)
			e.dev(n, sk, i, alphabet, k-1) // insertion
			if i < len(sk) {
				e.dev(n, sk, i+1, alphabet, k-1) // substitution
			}
		}
	}
	if i == len(sk) {
		e.RC.Count("states", 1)
		e.RunHorizon(w)
		return
	}
	n, out := e.Step(w, sk[i])
	if out.Kind == "halt" {
		return
	}
	e.dev(n, sk, i+1, alphabet, k)
}

// Pick returns an event that resolves label in the alphabet of the state it is applied to.
func Pick(alphabet func(*World) []Event, label string) Event {
	find := func(w *World) Event {
		for _, ev := range alphabet(w) {
			if ev.Label == label {
				return ev
			}
		}
		panic("Pick: no event " + label)
	}
	return Event{Label: label, Tag: "skeleton",
		Apply: func(w *World) Outcome { return find(w).Apply(w) },
		Msgs: func(w *World) []sdk.Msg {
			if m := find(w).Msgs; m != nil {
				return m(w)
			}
			return nil
		}}
}

// ReplayTrace re-executes a recorded list of event labels, resolving each label
// against the skeleton and the alphabet in the state where it is applied. Any
// label that cannot be resolved is a hard harness error.
func (e *Explorer) ReplayTrace(w *World, trace []string, resolve func(w *World, label string) (Event, bool)) *World {
	cur := w
	for _, lbl := range trace {
		ev, ok := resolve(cur, lbl)
		if !ok {
			e.RC.HarnessError(fmt.Sprintf("replay: cannot resolve event %q in scenario %s", lbl, e.Scenario))
			return cur
		}
		n, out := e.Step(cur, ev)
		cur = n
		if os.Getenv("VERIF_VERBOSE") != "" {
			fmt.Printf("  [replay] h=%d %-45s -> %s %s\n", n.Height(), lbl, out.Kind, out.Err)
			if os.Getenv("VERIF_VERBOSE") == "2" {
				for _, be := range n.LB.BeginEvents {
					fmt.Printf("      begin-event %s %v\n", be.Type, be.Attributes)
				}
			}
		}
		if out.Kind == "halt" {
			break
		}
	}
	return cur
}

// Resolver builds a label resolver from a skeleton and an alphabet.
func Resolver(skeleton []Event, alphabet func(*World) []Event) func(*World, string) (Event, bool) {
	return func(w *World, label string) (Event, bool) {
		for _, ev := range skeleton {
			if ev.Label == label {
				return ev, true
			}
		}
		if alphabet != nil {
			for _, ev := range alphabet(w) {
				if ev.Label == label {
					return ev, true
				}
			}
		}
		var d time.Duration
		if n, _ := fmt.Sscanf(label, "Block(%v)", &d); n == 1 {
			return BlockEv(d), true
		}
		if len(label) > 7 && label[:6] == "Block(" {
			if dd, err := time.ParseDuration(label[6 : len(label)-1]); err == nil {
				return BlockEv(dd), true
			}
		}
		return Event{}, false
	}
}
