//go:build verif

package mc

import (
	"bytes"
	"fmt"
	"time"

	disputetypes "github.com/tellor-io/layer/x/dispute/types"
	oracletypes "github.com/tellor-io/layer/x/oracle/types"

	sdk "github.com/cosmos/cosmos-sdk/types"
)

// Cast names the actors of the standard world.
type Cast struct {
	R1, R2         *User // reporters (R2 is staked with two validators)
	RV1, RV2       *User // validator operators V1, V2 as reporters (hold > 2/3 of validator power together)
	RV3            *User // operator of V3 as reporter; nil when V3 is not bonded (too little bonded stake to create a reporter)
	S1, S2         *User // selectors of R1 / R2
	S3             *User // second selector of R1 (two selectors of one reporter)
	Tipper, Payer  *User
	ModeQ, ModeQ2  []byte // short-window weighted-mode queries
	ModeQ3         []byte // a weighted-mode query whose id sorts after the cycle-list (weighted-median) queries; ModeQ and ModeQ2 sort before them
	ETH, BTC, TRBQ []byte
	Dep1           []byte // deposit query id 1
	Wd1            []byte // withdrawal query id 1
}

const ModeType = "modeq"

func must(w *World, label string, msgs ...sdk.Msg) {
	if r := w.Tx(msgs...); !r.OK {
		panic(fmt.Sprintf("setup %s: %s", label, r.Err))
	}
}

func mustBlock(w *World, dt time.Duration) {
	if !w.Block(dt) {
		panic("setup block: " + w.Halt.String())
	}
}

// StdSetup builds the standard deep-ish state shared by most scenarios:
// two reporters with selectors, a registered short-window mode spec, minting on.
func StdSetup(w *World, mintOn bool) *Cast {
	c := &Cast{R1: w.Usr[0], R2: w.Usr[1], S1: w.Usr[2], S2: w.Usr[3], Tipper: w.Usr[4], Payer: w.Usr[5], S3: w.Usr[6]}
	c.ETH, c.BTC, c.TRBQ = SpotQuery("eth", "usd"), SpotQuery("btc", "usd"), SpotQuery("trb", "usd")
	c.ModeQ, c.ModeQ2 = CustomQuery(ModeType, 1), CustomQuery(ModeType, 2)
	for n := uint64(3); c.ModeQ3 == nil; n++ {
		q := CustomQuery(ModeType, n)
		if bytes.Compare(QID(q), QID(c.ETH)) > 0 && bytes.Compare(QID(q), QID(c.BTC)) > 0 && bytes.Compare(QID(q), QID(c.TRBQ)) > 0 {
			c.ModeQ3 = q
		}
	}
	c.Dep1, c.Wd1 = BridgeQuery(true, 1), BridgeQuery(false, 1)
	mustBlock(w, time.Second) // stake tracker baseline is taken at the first EndBlock
	must(w, "delegate R1", MsgDelegate(c.R1.Acc, w.Vals[0], 100*TRB))
	must(w, "create R1", MsgCreateReporter(c.R1.Acc, "0.1", TRB))
	must(w, "delegate R2a", MsgDelegate(c.R2.Acc, w.Vals[1], 60*TRB))
	must(w, "delegate R2b", MsgDelegate(c.R2.Acc, w.Vals[0], 40*TRB))
	must(w, "create R2", MsgCreateReporter(c.R2.Acc, "0.05", TRB))
	must(w, "delegate S1", MsgDelegate(c.S1.Acc, w.Vals[0], 20*TRB))
	must(w, "select S1", MsgSelect(c.S1.Acc, c.R1.Acc))
	must(w, "delegate S2", MsgDelegate(c.S2.Acc, w.Vals[2], 30*TRB)) // the third validator may be outside the bonded set
	must(w, "delegate S2b", MsgDelegate(c.S2.Acc, w.Vals[1], 5*TRB))
	must(w, "select S2", MsgSelect(c.S2.Acc, c.R2.Acc))
	must(w, "delegate S3", MsgDelegate(c.S3.Acc, w.Vals[1], 15*TRB))
	must(w, "select S3", MsgSelect(c.S3.Acc, c.R1.Acc))
	c.RV1 = &User{Name: "RV1", Priv: w.Vals[0].OpPriv, Acc: w.Vals[0].Acc}
	c.RV2 = &User{Name: "RV2", Priv: w.Vals[1].OpPriv, Acc: w.Vals[1].Acc}
	must(w, "create RV1", MsgCreateReporter(c.RV1.Acc, "0", TRB))
	must(w, "create RV2", MsgCreateReporter(c.RV2.Acc, "0", TRB))
	if len(w.Vals) >= 3 {
		if v, err := w.App.StakingKeeper.GetValidator(w.Ctx, w.Vals[2].Val); err == nil && v.IsBonded() {
			c.RV3 = &User{Name: "RV3", Priv: w.Vals[2].OpPriv, Acc: w.Vals[2].Acc}
			must(w, "create RV3", MsgCreateReporter(c.RV3.Acc, "0", TRB))
		}
	}
	must(w, "register mode spec", MsgRegisterSpec(c.Tipper.Acc, ModeType, Spec("uint256", "weighted-mode", 2)))
	if mintOn {
		must(w, "mint init", MsgMintInit(w.Gov))
	}
	mustBlock(w, time.Second)
	return c
}

func ev1(label, tag string, m func(w *World) sdk.Msg) Event {
	return TxEv(label, tag, func(w *World) []sdk.Msg {
		x := m(w)
		if x == nil {
			return nil
		}
		return []sdk.Msg{x}
	})
}

// firstReportBy returns the first stored micro-report of r, if any.
func firstReportBy(w *World, r sdk.AccAddress) *oracletypes.MicroReport {
	l := w.ReportsBy(r)
	if len(l) == 0 {
		return nil
	}
	return &l[0]
}

func lastDisputeID(w *World) uint64 {
	d := w.Disputes()
	if len(d) == 0 {
		return 0
	}
	return d[len(d)-1].DisputeId
}

var voteNames = map[disputetypes.VoteEnum]string{
	disputetypes.VoteEnum_VOTE_SUPPORT: "support", disputetypes.VoteEnum_VOTE_AGAINST: "against", disputetypes.VoteEnum_VOTE_INVALID: "invalid",
}

var voteOrder = []disputetypes.VoteEnum{disputetypes.VoteEnum_VOTE_SUPPORT, disputetypes.VoteEnum_VOTE_AGAINST, disputetypes.VoteEnum_VOTE_INVALID}

// Times is the Δt alphabet (DESIGN §2.1).
var Times = []time.Duration{
	time.Millisecond, time.Second, 10 * time.Minute, 12 * time.Hour,
	24 * time.Hour, 24*time.Hour + time.Millisecond, 48 * time.Hour, 48*time.Hour + time.Millisecond, 72 * time.Hour, 72*time.Hour + time.Millisecond,
	21*24*time.Hour + time.Second,
}

// QuiesceHorizon passes every pending window and deadline.
var QuiesceHorizon = []time.Duration{
	time.Second, time.Second, time.Second,
	24*time.Hour + time.Millisecond, 24 * time.Hour, 24*time.Hour + time.Millisecond, time.Second,
	21*24*time.Hour + time.Second, time.Second,
}

type sdkMsg = sdk.Msg
