//go:build verif

package mc

import (
	"bufio"
	"crypto/sha256"
	"encoding/hex"
	"encoding/json"
	"flag"
	"fmt"
	"os"
	"os/exec"
	"path/filepath"
	"sort"
	"strconv"
	"strings"
	"sync"
	"time"
)

// Violation is one counterexample found by a check.
type Violation struct {
	Property string   `json:"property"`
	Oracle   string   `json:"oracle"`    // which oracle fired
	Sig      string   `json:"signature"` // stable identity used to match known findings
	Detail   string   `json:"detail"`
	Scenario string   `json:"scenario"`
	Trace    []string `json:"trace"` // event labels from genesis (replayable)
	NDev     int      `json:"deviations"`
	Replay   string   `json:"replay,omitempty"`
}

// Result is what a worker (or a merged run) reports.
type Result struct {
	Property   string            `json:"property"`
	Tier       string            `json:"tier"`
	Counters   map[string]int64  `json:"counters"`
	Sets       map[string][]string `json:"sets"` // distinct-value sets (merged by union)
	Samples    []interface{}     `json:"samples"`
	Violations []Violation       `json:"violations"`
	Notes      []string          `json:"notes"`
	Capped     bool              `json:"capped"`
	HarnessErr []string          `json:"harness_errors"`
}

// RunCtx is handed to every check function.
type RunCtx struct {
	Prop     string
	Tier     string
	Seed     int64
	Worker   int
	Workers  int
	Deadline time.Time
	Replay   *Violation // when non-nil: re-execute only this trace

	mu  sync.Mutex
	res Result
	sets map[string]map[string]struct{}
	taskNo int
}

func (rc *RunCtx) Quick() bool { return rc.Tier != "thorough" }

// Mine reports whether the next task (in deterministic enumeration order)
// belongs to this worker. Every worker enumerates the same task list.
func (rc *RunCtx) Mine() bool {
	n := rc.taskNo
	rc.taskNo++
	return rc.Workers <= 1 || n%rc.Workers == rc.Worker
}

func (rc *RunCtx) Count(name string, d int64) {
	rc.mu.Lock()
	rc.res.Counters[name] += d
	rc.mu.Unlock()
}

func (rc *RunCtx) Max(name string, v int64) {
	rc.mu.Lock()
	if rc.res.Counters[name] < v {
		rc.res.Counters[name] = v
	}
	rc.mu.Unlock()
}

// Distinct records a value in a named set; set sizes are reported as measured
// "distinct outcomes" in evidence.
func (rc *RunCtx) Distinct(set, val string) {
	rc.mu.Lock()
	m := rc.sets[set]
	if m == nil {
		m = map[string]struct{}{}
		rc.sets[set] = m
	}
	if len(m) < 200000 {
		m[val] = struct{}{}
	}
	rc.mu.Unlock()
}

func (rc *RunCtx) Sample(s interface{}) {
	rc.mu.Lock()
	if len(rc.res.Samples) < 6 {
		rc.res.Samples = append(rc.res.Samples, s)
	}
	rc.mu.Unlock()
}

func (rc *RunCtx) Note(s string) {
	rc.mu.Lock()
	rc.res.Notes = append(rc.res.Notes, s)
	rc.mu.Unlock()
}

func (rc *RunCtx) HarnessError(s string) {
	rc.mu.Lock()
	rc.res.HarnessErr = append(rc.res.HarnessErr, s)
	rc.mu.Unlock()
}

func (rc *RunCtx) Cap() {
	rc.mu.Lock()
	rc.res.Capped = true
	rc.mu.Unlock()
}

func (rc *RunCtx) TimeUp() bool { return time.Now().After(rc.Deadline) }

// Violate records a violation (deduplicated by signature: the first, i.e.
// shortest-first in enumeration order, trace is kept).
func (rc *RunCtx) Violate(v Violation) {
	v.Property = rc.Prop
	rc.mu.Lock()
	defer rc.mu.Unlock()
	rc.res.Counters["violations_raw"]++
	for i, o := range rc.res.Violations {
		if o.Sig == v.Sig {
			if simpler(v, o) {
				rc.res.Violations[i] = v
			}
			return
		}
	}
	rc.res.Violations = append(rc.res.Violations, v)
}

// simpler orders counterexamples: fewer deviations first, then shorter traces.
func simpler(a, b Violation) bool {
	if a.NDev != b.NDev {
		return a.NDev < b.NDev
	}
	return len(a.Trace) < len(b.Trace)
}

// CheckFunc is a property check.
type CheckFunc func(rc *RunCtx)

type CheckInfo struct {
	Fn     CheckFunc
	Level  string // evidence level
	Rule   string
	Assume []string
	// Budget per tier (wall seconds for the exploring workers).
	QuickBudget, ThoroughBudget time.Duration
	Serial bool // no worker sharding
}

var registry = map[string]*CheckInfo{}

func Register(id string, ci *CheckInfo) { registry[id] = ci }

type knownEntry struct {
	Kind     string `json:"kind"` // "finding" | "fixed"
	Property string `json:"property"`
	Sig      string `json:"signature"`
	What     string `json:"what"`
	Commit   string `json:"commit,omitempty"`
}

func loadKnown() []knownEntry {
	f, err := os.Open(Root()+"/known_findings.jsonl")
	if err != nil {
		return nil
	}
	defer f.Close()
	var out []knownEntry
	sc := bufio.NewScanner(f)
	sc.Buffer(make([]byte, 1<<20), 1<<20)
	for sc.Scan() {
		line := strings.TrimSpace(sc.Text())
		if line == "" || strings.HasPrefix(line, "#") {
			continue
		}
		var e knownEntry
		if json.Unmarshal([]byte(line), &e) == nil {
			out = append(out, e)
		}
	}
	return out
}

func newRunCtx(prop, tier string) *RunCtx {
	rc := &RunCtx{Prop: prop, Tier: tier, sets: map[string]map[string]struct{}{}}
	rc.res = Result{Property: prop, Tier: tier, Counters: map[string]int64{}, Sets: map[string][]string{}}
	return rc
}

func (rc *RunCtx) finish() Result {
	for k, m := range rc.sets {
		l := make([]string, 0, len(m))
		for v := range m {
			l = append(l, v)
		}
		sort.Strings(l)
		rc.res.Sets[k] = l
	}
	return rc.res
}

// Main is the entry point of the vmain binary:
//
//	vmain <PROP> [--tier quick|thorough] [--worker i/n --out f] [--replay file]
func Main(args []string) int {
	if len(args) == 0 {
		fmt.Fprintln(os.Stderr, "usage: vmain <PROP> [--tier quick|thorough] [--replay file]")
		return 2
	}
	prop := args[0]
	fs := flag.NewFlagSet("vmain", flag.ContinueOnError)
	tier := fs.String("tier", envOr("VERIF_TIER", "quick"), "quick|thorough")
	worker := fs.String("worker", "", "i/n (internal)")
	out := fs.String("out", "", "worker result file (internal)")
	replay := fs.String("replay", "", "replay a violation file")
	nworkers := fs.Int("j", 16, "worker processes")
	if err := fs.Parse(args[1:]); err != nil {
		return 2
	}
	ci := registry[prop]
	if ci == nil {
		fmt.Fprintf(os.Stderr, "unknown property %s\n", prop)
		return 2
	}
	seed, _ := strconv.ParseInt(envOr("VERIF_SEED", "0"), 10, 64)
	budget := ci.QuickBudget
	if *tier == "thorough" {
		budget = ci.ThoroughBudget
	}
	if budget == 0 {
		budget = 10 * time.Minute
	}

	if *replay != "" {
		bz, err := os.ReadFile(*replay)
		if err != nil {
			fmt.Fprintln(os.Stderr, err)
			return 2
		}
		var v Violation
		if err := json.Unmarshal(bz, &v); err != nil {
			fmt.Fprintln(os.Stderr, err)
			return 2
		}
		rc := newRunCtx(prop, *tier)
		rc.Seed, rc.Deadline, rc.Replay = seed, time.Now().Add(budget), &v
		ci.Fn(rc)
		r := rc.finish()
		for _, nv := range r.Violations {
			if nv.Sig == v.Sig {
				fmt.Printf("REPRODUCED property=%s signature=%q\n  %s\n", prop, nv.Sig, nv.Detail)
				return 1
			}
		}
		fmt.Printf("NOT-REPRODUCED property=%s signature=%q (%d other violations)\n", prop, v.Sig, len(r.Violations))
		return 0
	}

	if *worker != "" {
		var i, n int
		fmt.Sscanf(*worker, "%d/%d", &i, &n)
		rc := newRunCtx(prop, *tier)
		rc.Seed, rc.Worker, rc.Workers, rc.Deadline = seed, i, n, time.Now().Add(budget)
		func() {
			defer func() {
				if r := recover(); r != nil {
					rc.HarnessError(fmt.Sprintf("worker %d panic: %v", i, r))
				}
			}()
			ci.Fn(rc)
		}()
		r := rc.finish()
		bz, _ := json.Marshal(r)
		if err := os.WriteFile(*out, bz, 0o644); err != nil {
			fmt.Fprintln(os.Stderr, err)
			return 2
		}
		return 0
	}

	// master
	t0 := time.Now()
	n := *nworkers
	if ci.Serial {
		n = 1
	}
	self, _ := os.Executable()
	os.MkdirAll(Root()+"/.build/work", 0o755)
	var wg sync.WaitGroup
	results := make([]Result, n)
	errs := make([]error, n)
	for i := 0; i < n; i++ {
		wg.Add(1)
		go func(i int) {
			defer wg.Done()
			of := fmt.Sprintf(Root()+"/.build/work/%s.%s.w%d.json", prop, *tier, i)
			os.Remove(of)
			cmd := exec.Command(self, prop, "--tier", *tier, "--worker", fmt.Sprintf("%d/%d", i, n), "--out", of)
			cmd.Env = append(os.Environ(), "GOMAXPROCS=2")
			lf, _ := os.Create(of + ".log")
			cmd.Stdout, cmd.Stderr = lf, lf
			err := cmd.Run()
			lf.Close()
			if err != nil {
				errs[i] = fmt.Errorf("worker %d: %v (see %s.log)", i, err, of)
				return
			}
			bz, err := os.ReadFile(of)
			if err != nil {
				errs[i] = err
				return
			}
			errs[i] = json.Unmarshal(bz, &results[i])
		}(i)
	}
	wg.Wait()
	merged := Result{Property: prop, Tier: *tier, Counters: map[string]int64{}, Sets: map[string][]string{}}
	sets := map[string]map[string]struct{}{}
	for i, r := range results {
		if errs[i] != nil {
			merged.HarnessErr = append(merged.HarnessErr, errs[i].Error())
			continue
		}
		for k, v := range r.Counters {
			if strings.HasPrefix(k, "max_") {
				if merged.Counters[k] < v {
					merged.Counters[k] = v
				}
			} else {
				merged.Counters[k] += v
			}
		}
		for k, l := range r.Sets {
			if sets[k] == nil {
				sets[k] = map[string]struct{}{}
			}
			for _, v := range l {
				sets[k][v] = struct{}{}
			}
		}
		for _, s := range r.Samples {
			if len(merged.Samples) < 6 {
				merged.Samples = append(merged.Samples, s)
			}
		}
		for _, v := range r.Violations {
			dup := false
			for i, o := range merged.Violations {
				if o.Sig == v.Sig {
					dup = true
					if simpler(v, o) {
						merged.Violations[i] = v
					}
				}
			}
			if !dup {
				merged.Violations = append(merged.Violations, v)
			}
		}
		merged.Notes = append(merged.Notes, r.Notes...)
		merged.HarnessErr = append(merged.HarnessErr, r.HarnessErr...)
		merged.Capped = merged.Capped || r.Capped
	}
	for k, m := range sets {
		merged.Counters["distinct_"+k] = int64(len(m))
		if len(m) <= 40 { // small sets are listed in evidence (observed outcome classes, recovered panics, ...)
			l := make([]string, 0, len(m))
			for v := range m {
				l = append(l, v)
			}
			sort.Strings(l)
			merged.Sets[k] = l
		}
	}
	sort.Slice(merged.Violations, func(i, j int) bool { return merged.Violations[i].Sig < merged.Violations[j].Sig })

	// classify against known findings
	known := loadKnown()
	exit := 0
	var unknown []Violation
	for _, v := range merged.Violations {
		matched := false
		for _, k := range known {
			if k.Kind == "finding" && k.Property == prop && k.Sig == v.Sig {
				fmt.Printf("KNOWN-FINDING: property=%s %s [%s]\n", prop, k.What, v.Sig)
				matched = true
			}
		}
		if !matched {
			unknown = append(unknown, v)
		}
	}
	os.MkdirAll(Root()+"/replays/"+prop, 0o755)
	for i := range unknown {
		v := &unknown[i]
		h := sha256.Sum256([]byte(v.Sig))
		p := filepath.Join(Root()+"/replays", prop, hex.EncodeToString(h[:6])+".json")
		v.Replay = p
		bz, _ := json.MarshalIndent(v, "", " ")
		os.WriteFile(p, bz, 0o644)
		fmt.Printf("VIOLATION property=%s replay=%s\n  oracle=%s sig=%q\n  %s\n  trace=%s\n", prop, p, v.Oracle, v.Sig, v.Detail, strings.Join(v.Trace, " ; "))
		exit = 1
	}
	if len(merged.HarnessErr) > 0 {
		for _, e := range merged.HarnessErr {
			fmt.Fprintln(os.Stderr, "HARNESS-ERROR:", e)
		}
		if exit == 0 {
			exit = 2
		}
	}
	writeEvidence(prop, *tier, seed, ci, merged, len(unknown), time.Since(t0))
	fmt.Printf("%s %s: states=%d transitions=%d executions=%d evaluations=%d violations=%d(known %d) capped=%v wall=%.1fs\n", prop, *tier,
		merged.Counters["states"], merged.Counters["transitions"], merged.Counters["executions"], merged.Counters["evaluations"],
		len(unknown), len(merged.Violations)-len(unknown), merged.Capped, time.Since(t0).Seconds())
	return exit
}

// RepoDir is /repo unless VERIF_REPO names another checkout (harness development only; the registered commands use /repo).
func RepoDir() string {
	if d := os.Getenv("VERIF_REPO"); d != "" {
		return d
	}
	return "/repo"
}

// Root is the verification root (default /verif; a snapshot run sets VERIF_ROOT).
func Root() string { return envOr("VERIF_ROOT", "/verif") }

func envOr(k, d string) string {
	if v := os.Getenv(k); v != "" {
		return v
	}
	return d
}

func writeEvidence(prop, tier string, seed int64, ci *CheckInfo, r Result, nviol int, wall time.Duration) {
	cov := map[string]interface{}{}
	for k, v := range r.Counters {
		cov[k] = v
	}
	samples := r.Samples
	if len(samples) == 0 {
		samples = []interface{}{"(none recorded)"}
	}
	cov["samples"] = samples
	cov["exhaustive"] = !r.Capped && len(r.HarnessErr) == 0
	cov["rule"] = ci.Rule
	if len(r.Sets) > 0 {
		cov["observed_sets"] = r.Sets
	}
	if len(r.Notes) > 0 {
		if len(r.Notes) > 40 {
			r.Notes = r.Notes[:40]
		}
		cov["notes"] = r.Notes
	}
	switch ci.Level {
	case "model_checking":
		if _, ok := cov["states"]; !ok {
			cov["states"] = int64(0)
		}
		if _, ok := cov["transitions"]; !ok {
			cov["transitions"] = int64(0)
		}
		if _, ok := cov["traces_validated_against_impl"]; !ok {
			cov["traces_validated_against_impl"] = r.Counters["executions"]
		}
	default:
		if _, ok := cov["evaluations"]; !ok {
			cov["evaluations"] = r.Counters["executions"]
		}
		if _, ok := cov["distinct_nontrivial"]; !ok {
			cov["distinct_nontrivial"] = int64(0)
		}
	}
	if ci.Assume == nil {
		ci.Assume = []string{"bounded exhaustive exploration within the alphabet and bounds stated in coverage.rule", "at least one bonded validator with a registered EVM address exists from height 2 (DESIGN §2.6)", "SDK signature/fee/sequence ante decorators are not executed"}
	}
	known := 0
	for _, v := range r.Violations {
		_ = v
		known++
	}
	ev := map[string]interface{}{
		"property_id": prop, "tier": tier, "seed": seed, "level": ci.Level,
		"coverage": cov, "assumptions": ci.Assume, "wall_s": wall.Seconds(),
		"violations": nviol, "known_findings_matched": known - nviol,
	}
	bz, _ := json.MarshalIndent(ev, "", " ")
	os.MkdirAll(Root()+"/evidence", 0o755)
	os.WriteFile(filepath.Join(Root()+"/evidence", prop+".json"), bz, 0o644)
	if tier == "thorough" {
		// the latest thorough run is kept beside the per-change (quick) evidence, which the next quick run overwrites
		os.MkdirAll(Root()+"/evidence/thorough", 0o755)
		os.WriteFile(filepath.Join(Root()+"/evidence/thorough", prop+".json"), bz, 0o644)
	}
}
