//go:build verif

package mc

import (
	"bytes"
	"fmt"
	"math/big"
	"sort"
	"strings"
	"time"

	disputetypes "github.com/tellor-io/layer/x/dispute/types"

	"cosmossdk.io/collections"
	"cosmossdk.io/math"

	sdk "github.com/cosmos/cosmos-sdk/types"
)

func init() {
	Register("C13", &CheckInfo{
		Fn: checkC13, Level: "model_checking",
		Rule: "shadow settlement ledger per dispute (fees by payer and source, escrowed stake, rounds) kept in lock-step with every accepted payment; oracles: the stored payer record equals the cumulative amount the payer paid; at the block that executes a dispute the burn and the stake returned to backers equal the amounts implied by the result; then on a throw-away branch every payer and every voter claims (each dispute id of the family, forward and reverse order): each entitled claim succeeds exactly once, a second attempt is rejected, every refund is within one unit of its pro-rata share of the refundable pot, voter rewards do not exceed their pot, and at most dust (one unit per party + stored dust) remains in dispute escrow; failed (underfunded) disputes refund what was paid; evaluated on an exhaustive DFS depth 5 (quick) / 7 (thorough) over {Propose full/half/min/from-bond, AddFee rest/1/from-bond, votes by team x3 / reporter / selector / tipper, new round, Block 1s/1d+1ms/2d+1ms/3d+1ms} after a real report, and on all <=k-deviation histories around the shared skeletons (minting off)",
		QuickBudget: 10 * time.Minute, ThoroughBudget: 15 * time.Minute,
	})
}

// famLedger is the shadow ledger of one dispute family (all rounds of one hash).
type famLedger struct {
	Fees     map[string]math.Int // payer -> cumulative paid
	Bond     map[string]bool     // payer paid (at least once) from stake
	Repeat   map[string]bool     // payer paid more than once
	Order    []string
	Stake    math.Int // escrowed at funding
	Rounds   int
	RoundOf  map[string]int // payer -> first round it paid in
	Settled  bool
	FailedOK bool
	Short    math.Int // recorded minus actually received (fee-from-stake truncation, known finding C04)
}

func (l *famLedger) clone() *famLedger {
	n := &famLedger{Fees: map[string]math.Int{}, Bond: map[string]bool{}, Repeat: map[string]bool{}, RoundOf: map[string]int{}, Order: append([]string(nil), l.Order...), Stake: l.Stake, Rounds: l.Rounds, Settled: l.Settled, FailedOK: l.FailedOK, Short: l.Short}
	for k, v := range l.Fees {
		n.Fees[k] = v
	}
	for k, v := range l.Bond {
		n.Bond[k] = v
	}
	for k, v := range l.Repeat {
		n.Repeat[k] = v
	}
	for k, v := range l.RoundOf {
		n.RoundOf[k] = v
	}
	return n
}

type SettleMonitor struct{}

type settlePre struct {
	latest  map[string]disputetypes.Dispute
	exec    map[uint64]bool
	supply  math.Int
	staked  map[string]math.Int
	dispBal math.Int
}

func latestByHash(w *World) map[string]disputetypes.Dispute {
	m := map[string]disputetypes.Dispute{}
	for _, d := range w.Disputes() {
		m[string(d.HashId)] = d
	}
	return m
}

func (SettleMonitor) Pre(w *World) interface{} {
	p := &settlePre{latest: latestByHash(w), exec: map[uint64]bool{}, supply: w.Supply(), staked: map[string]math.Int{}, dispBal: w.ModBal("dispute")}
	for _, d := range w.Disputes() {
		if v, err := w.App.DisputeKeeper.Votes.Get(w.Ctx, d.DisputeId); err == nil {
			p.exec[d.DisputeId] = v.Executed
		}
	}
	for _, a := range w.actors() {
		p.staked[a.String()] = w.vecOf(a).staked
	}
	return p
}

func resultClass(r disputetypes.VoteResult) string {
	switch r {
	case disputetypes.VoteResult_SUPPORT, disputetypes.VoteResult_NO_QUORUM_MAJORITY_SUPPORT:
		return "support"
	case disputetypes.VoteResult_AGAINST, disputetypes.VoteResult_NO_QUORUM_MAJORITY_AGAINST:
		return "against"
	case disputetypes.VoteResult_INVALID, disputetypes.VoteResult_NO_QUORUM_MAJORITY_INVALID:
		return "invalid"
	}
	return "none"
}

func (SettleMonitor) Post(e *Explorer, before, w *World, pre interface{}, ev *Event, out Outcome) {
	if out.Kind == "tx-rej" || out.Kind == "halt" {
		return
	}
	p := pre.(*settlePre)
	if w.Ledgers == nil {
		w.Ledgers = map[string]*famLedger{}
	}
	fail := func(oracle, detail string) {
		e.Violate(w, oracle, "settle|"+oracle, fmt.Sprintf("%s (after %s)", detail, ev.Label))
	}
	now := latestByHash(w)
	dk := w.App.DisputeKeeper
	// ---- payments ----
	if out.Kind == "tx-ok" && ev.Msgs != nil {
		for _, m := range ev.Msgs(before) {
			var payer string
			var bond bool
			switch x := m.(type) {
			case *disputetypes.MsgProposeDispute:
				payer, bond = x.Creator, x.PayFromBond
			case *disputetypes.MsgAddFeeToDispute:
				payer, bond = x.Creator, x.PayFromBond
			default:
				continue
			}
			for h, nd := range now {
				od, existed := p.latest[h]
				paid := nd.FeeTotal
				if existed {
					paid = nd.FeeTotal.Sub(od.FeeTotal)
				}
				if !paid.IsPositive() {
					continue
				}
				cp := map[string]*famLedger{}
				for k, v := range w.Ledgers {
					cp[k] = v
				}
				l := cp[h]
				if l == nil {
					l = &famLedger{Fees: map[string]math.Int{}, Bond: map[string]bool{}, Repeat: map[string]bool{}, RoundOf: map[string]int{}, Stake: math.ZeroInt(), Short: math.ZeroInt()}
				} else {
					l = l.clone()
				}
				if _, ok := l.Fees[payer]; ok {
					l.Repeat[payer] = true
					l.Fees[payer] = l.Fees[payer].Add(paid)
				} else {
					l.Fees[payer] = paid
					l.Order = append(l.Order, payer)
					l.RoundOf[payer] = int(nd.DisputeRound)
				}
				if bond {
					l.Bond[payer] = true
				}
				l.Rounds = int(nd.DisputeRound)
				newStake := math.ZeroInt()
				if rec, err := w.App.ReporterKeeper.DisputedDelegationAmounts.Get(w.Ctx, nd.HashId); err == nil {
					newStake = rec.Total.Sub(l.Stake)
					l.Stake = rec.Total
				}
				if moved := w.ModBal("dispute").Sub(p.dispBal); bond && moved.LT(paid.Add(newStake)) {
					l.Short = l.Short.Add(paid.Add(newStake).Sub(moved))
				}
				cp[h] = l
				w.Ledgers = cp
				e.RC.Count("settle_payments_tracked", 1)
				// the stored payer record must equal what the payer has paid so far (in some round's record)
				pa := sdk.MustAccAddressFromBech32(payer)
				recorded := math.ZeroInt()
				for _, id := range nd.PrevDisputeIds {
					if pi, err := dk.DisputeFeePayer.Get(w.Ctx, collections.Join(id, pa.Bytes())); err == nil {
						recorded = recorded.Add(pi.Amount)
					}
				}
				if !recorded.Equal(l.Fees[payer]) {
					cls := "other"
					switch {
					case nd.DisputeRound > 1 && l.RoundOf[payer] > 1 && recorded.IsZero():
						cls = "later-round-payer-unrecorded"
					case nd.DisputeRound > 1:
						cls = "later-round-payment-unrecorded"
					case l.Repeat[payer]:
						cls = "repeat-payment-overwritten"
					}
					fail("payer-record|"+cls, fmt.Sprintf("payer %s has paid %s into dispute family of id %d but its stored record says %s", short(payer), l.Fees[payer], nd.DisputeId, recorded))
				}
			}
		}
		return
	}
	if out.Kind != "block" {
		return
	}
	// ---- settlement at execution / failure ----
	for h, nd := range now {
		l := w.Ledgers[h]
		if l == nil || l.Settled {
			continue
		}
		v, err := dk.Votes.Get(w.Ctx, nd.DisputeId)
		executedNow := err == nil && v.Executed && !p.exec[nd.DisputeId]
		failedNow := nd.DisputeStatus == disputetypes.Failed && p.latest[h].DisputeStatus != disputetypes.Failed
		if !executedNow && !failedNow {
			continue
		}
		cp := map[string]*famLedger{}
		for k, vv := range w.Ledgers {
			cp[k] = vv
		}
		l = l.clone()
		l.Settled = true
		cp[h] = l
		w.Ledgers = cp
		od := p.latest[h]
		F := math.ZeroInt()
		anyBond, anyRepeat := false, false
		for _, k := range l.Order {
			F = F.Add(l.Fees[k])
			anyBond = anyBond || l.Bond[k]
			anyRepeat = anyRepeat || l.Repeat[k]
		}
		cls := fmt.Sprintf("rounds=%s|payers=%s|bond=%v|repeat=%v", oneOrMany(l.Rounds), oneOrMany(len(l.Order)), anyBond, anyRepeat)
		if failedNow {
			e.RC.Count("settlements_failed_dispute", 1)
			settleProbe(e, w, nd, l, "failed", cls, F, math.ZeroInt(), F, math.ZeroInt())
			continue
		}
		e.RC.Count("settlements_executed", 1)
		rc := resultClass(v.VoteResult)
		e.RC.Distinct("settled_classes", rc+"|"+cls)
		S, B := l.Stake, od.BurnAmount
		// voters over all rounds
		voterPower := math.ZeroInt()
		for _, id := range nd.PrevDisputeIds {
			_ = dk.Voter.Walk(w.Ctx, collections.NewPrefixedPairRange[uint64, []byte](id), func(_ collections.Pair[uint64, []byte], vv disputetypes.Voter) (bool, error) {
				voterPower = voterPower.Add(vv.VoterPower)
				return false, nil
			})
		}
		pot := math.ZeroInt()
		wantBurnLo, wantBurnHi := B, B
		if voterPower.IsPositive() {
			pot = B.QuoRaw(2)
			wantBurnLo, wantBurnHi = B.QuoRaw(2), B.Sub(B.QuoRaw(2))
		}
		mint := math.ZeroInt()
		if mm, err := before.App.MintKeeper.Minter.Get(before.Ctx); err == nil && mm.Initialized && mm.PreviousBlockTime != nil {
			mint = math.NewInt(dailyRate).MulRaw(w.Time().Sub(*mm.PreviousBlockTime).Milliseconds()).QuoRaw(msPerDay)
		}
		burned := p.supply.Add(mint).Sub(w.Supply())
		settling := 0
		for h2, nd2 := range now {
			if v2, err := dk.Votes.Get(w.Ctx, nd2.DisputeId); err == nil && v2.Executed && !p.exec[nd2.DisputeId] && w.Ledgers[h2] != nil {
				settling++
			}
		}
		burnExcess := math.ZeroInt() // burned beyond the statement's amount: missing from the voters' pot
		if settling == 1 && (burned.LT(wantBurnLo) || burned.GT(wantBurnHi)) {
			c3 := "other"
			if l.Rounds > 1 && burned.Equal(B) && voterPower.IsPositive() {
				c3 = "earlier-round-voters-ignored"
				burnExcess = burned.Sub(wantBurnHi)
				pot = math.ZeroInt()
			}
			fail("burn-amount|"+c3+"|"+rc, fmt.Sprintf("execution burned %s, the dispute's burn amount is %s (voters: %v)", burned, B, voterPower.IsPositive()))
		}
		_ = burnExcess
		// stake returned to the backers in this block
		returned := math.ZeroInt()
		if rec, err := before.App.ReporterKeeper.DisputedDelegationAmounts.Get(before.Ctx, nd.HashId); err == nil {
			seen := map[string]bool{}
			for _, o := range rec.TokenOrigins {
				k := sdk.AccAddress(o.DelegatorAddress).String()
				if seen[k] {
					continue
				}
				seen[k] = true
				if b, ok := p.staked[k]; ok {
					returned = returned.Add(w.vecOf(sdk.AccAddress(o.DelegatorAddress)).staked.Sub(b))
				}
			}
		}
		wantReturned, refundPot := math.ZeroInt(), math.ZeroInt()
		switch rc {
		case "invalid":
			wantReturned, refundPot = S, F.Sub(B)
		case "support":
			refundPot = S.Add(F).Sub(B)
		case "against":
			wantReturned = S.Add(F).Sub(B)
		}
		explained := math.ZeroInt()
		// (with several disputes executing in one block the backers' stake change cannot be attributed to one of them)
		if d := returned.Sub(wantReturned).Abs(); settling == 1 && d.GT(math.NewInt(8)) {
			c3 := "other"
			// exact prediction of the known multi-round defect: every later round's fee is both added to the burn amount
			// and left out of the amount returned, i.e. the backers miss exactly the later-round fees (+ from-bond truncation)
			first := math.ZeroInt()
			if fd, err := dk.Disputes.Get(w.Ctx, nd.PrevDisputeIds[0]); err == nil {
				first = fd.FeeTotal
			}
			laterFees := F.Sub(first)
			if l.Rounds > 1 && rc == "against" && wantReturned.Sub(returned).Sub(laterFees).Abs().LTE(l.Short.AddRaw(8)) {
				c3 = "later-round-fees-withheld"
			}
			fail("stake-returned|"+c3+"|"+rc, fmt.Sprintf("backers received %s back at execution, result %s implies %s (stake %s, fees %s, burn %s)", returned, rc, wantReturned, S, F, B))
			if wantReturned.GT(returned) {
				explained = wantReturned.Sub(returned)
			}
		}
		settleProbe(e, w, nd, l, rc, cls, F, pot, refundPot, explained)
	}
}

func oneOrMany(n int) string {
	if n <= 1 {
		return "1"
	}
	return "n"
}

// settleProbe lets every payer and voter claim on a throw-away branch and checks the claims and the residual.
func settleProbe(e *Explorer, w *World, nd disputetypes.Dispute, l *famLedger, rc, cls string, F, voterPot, refundPot, explainedIn math.Int) {
	fail := func(oracle, detail string) {
		e.Violate(w, oracle, "settle|"+oracle, fmt.Sprintf("%s (dispute %d settled as %s, %s)", detail, nd.DisputeId, rc, cls))
	}
	type party struct {
		addr  sdk.AccAddress
		voter bool
	}
	var parties []party
	for _, k := range l.Order {
		parties = append(parties, party{sdk.MustAccAddressFromBech32(k), false})
	}
	vseen := map[string]bool{}
	dk := w.App.DisputeKeeper
	for _, id := range nd.PrevDisputeIds {
		_ = dk.Voter.Walk(w.Ctx, collections.NewPrefixedPairRange[uint64, []byte](id), func(k collections.Pair[uint64, []byte], _ disputetypes.Voter) (bool, error) {
			a := sdk.AccAddress(k.K2())
			if !vseen[a.String()] {
				vseen[a.String()] = true
				parties = append(parties, party{a, true})
			}
			return false, nil
		})
	}
	for pass := 0; pass < 2; pass++ {
		f := w.Fork()
		order := append([]party(nil), parties...)
		if pass == 1 {
			for i, j := 0, len(order)-1; i < j; i, j = i+1, j-1 {
				order[i], order[j] = order[j], order[i]
			}
		}
		voterPaid := math.ZeroInt()
		quietVoterFailures := 0
		explained := explainedIn
		for _, pt := range order {
			group := []sdk.AccAddress{pt.addr}
			if !pt.voter && l.Bond[pt.addr.String()] {
				// a fee paid from stake came from (and is refunded to) the delegators recorded for this dispute
				set := map[string]bool{}
				if rec, err := f.App.ReporterKeeper.FeePaidFromStake.Get(f.Ctx, nd.HashId); err == nil {
					for _, o := range rec.TokenOrigins {
						set[sdk.AccAddress(o.DelegatorAddress).String()] = true
					}
				}
				for a := range set {
					if a != pt.addr.String() {
						group = append(group, sdk.MustAccAddressFromBech32(a))
					}
				}
			}
			wealth := func() math.Int {
				s := math.ZeroInt()
				for _, a := range group {
					s = s.Add(f.Bal(a)).Add(f.vecOf(a).staked)
				}
				return s
			}
			b0 := wealth()
			okCount := 0
			var errs []string
			for round := 0; round < 2; round++ { // second round: every claim must now be rejected
				for _, id := range nd.PrevDisputeIds {
					var msg sdk.Msg
					if pt.voter {
						msg = MsgClaimReward(pt.addr, id)
					} else {
						msg = MsgFeeRefund(pt.addr, pt.addr, id)
					}
					r := f.Tx(msg)
					if r.OK {
						okCount++
						if round == 1 {
							fail("claimed-twice|"+map[bool]string{true: "voter", false: "payer"}[pt.voter], fmt.Sprintf("%s could claim a second time on dispute %d", short(pt.addr.String()), id))
						}
					} else if round == 0 {
						errs = append(errs, fmt.Sprintf("id %d: %s", id, NormErr(r.Err)))
					}
				}
			}
			got := wealth().Sub(b0)
			e.RC.Count("settle_claims_probed", 1)
			if pt.voter {
				voterPaid = voterPaid.Add(got)
				zero := true
				for _, er := range errs {
					if !strings.Contains(er, "reward is zero") && !strings.Contains(er, "not resolved") && !strings.Contains(er, "not executed") && !strings.Contains(er, "not found") {
						zero = false
					}
				}
				if okCount == 0 && zero {
					quietVoterFailures++
				}
				if okCount == 0 && rc != "failed" && voterPot.IsPositive() && !zero {
					c2 := "other"
					j := strings.Join(errs, "; ")
					switch {
					case strings.Contains(j, "insufficient funds") && l.Short.IsPositive():
						c2 = "insufficient-funds-after-frombond-truncation"
					case l.Rounds > 1:
						c2 = "multi-round"
					}
					fail("voter-claim-fails|"+c2, fmt.Sprintf("voter %s cannot claim: %v", short(pt.addr.String()), errs))
				}
				continue
			}
			want := new(big.Rat)
			if F.IsPositive() {
				want.Mul(new(big.Rat).SetInt(refundPot.BigInt()), new(big.Rat).SetFrac(l.Fees[pt.addr.String()].BigInt(), F.BigInt()))
			}
			entitled := want.Cmp(big.NewRat(1, 1)) >= 0
			switch {
			case entitled && okCount == 0:
				c2 := "other"
				joined := strings.Join(errs, "; ")
				switch {
				case strings.Contains(joined, "insufficient funds") && l.Short.IsPositive():
					c2 = "insufficient-funds-after-frombond-truncation"
				case strings.Contains(joined, "insufficient funds"):
					c2 = "insufficient-funds"
				case l.Rounds > 1:
					c2 = "multi-round"
				case strings.Contains(joined, "not found") && l.Bond[pt.addr.String()]:
					c2 = "from-bond-record-gone"
				}
				fail("payer-claim-fails|"+c2+"|"+rc, fmt.Sprintf("payer %s (paid %s, entitled to %s) cannot claim: %v", short(pt.addr.String()), l.Fees[pt.addr.String()], want.FloatString(2), errs))
				explained = explained.Add(math.NewIntFromBigInt(new(big.Int).Quo(want.Num(), want.Denom())))
			case okCount > 0:
				diff := new(big.Rat).Sub(new(big.Rat).SetInt(got.BigInt()), want)
				if diff.Abs(diff).Cmp(big.NewRat(3, 1)) > 0 {
					c2 := "other"
					switch {
					case rc == "failed":
						c2 = "failed-dispute"
					case l.Rounds > 1:
						c2 = "multi-round"
					case l.Repeat[pt.addr.String()]:
						c2 = "repeat-payer"
					case len(l.Order) > 1 && anyRepeat(l):
						c2 = "co-payer-of-repeat-payer"
					case l.Bond[pt.addr.String()]:
						c2 = "from-bond"
					}
					fail("refund-amount|"+c2+"|"+rc, fmt.Sprintf("payer %s paid %s of %s and received %s, pro-rata share of the refundable pot %s is %s", short(pt.addr.String()), l.Fees[pt.addr.String()], F, got, refundPot, want.FloatString(2)))
					if d := new(big.Int).Quo(want.Num(), want.Denom()); got.BigInt().Cmp(d) < 0 {
						explained = explained.Add(math.NewIntFromBigInt(d).Sub(got))
					}
				}
			}
		}
		// a pot the chain set aside for voters has to be claimable by somebody
		if cd, err := f.App.DisputeKeeper.Disputes.Get(f.Ctx, nd.DisputeId); err == nil && rc != "failed" && cd.VoterReward.GT(math.NewInt(int64(len(parties)))) && voterPaid.IsZero() {
			nv := 0
			for _, pt := range parties {
				if pt.voter {
					nv++
				}
			}
			if nv > 0 && quietVoterFailures == nv {
				fail("voter-pot-unclaimable", fmt.Sprintf("the dispute records a voters' reward of %s, %d voters of its rounds tried to claim and none was paid", cd.VoterReward, nv))
			}
		}
		if voterPaid.GT(voterPot.AddRaw(int64(len(parties)))) {
			fail("voter-rewards-exceed-pot", fmt.Sprintf("voters were paid %s in total, their pot is %s", voterPaid, voterPot))
		}
		// residual: with a single dispute family in the scenario everything left in escrow is residual
		if len(w.Ledgers) == 1 {
			res := f.ModBal("dispute")
			dust, _ := f.App.DisputeKeeper.Dust.Get(f.Ctx)
			bound := math.NewInt(int64(len(parties)+len(l.Order)+4)).Add(dust.QuoRaw(TRB)).AddRaw(1)
			// voters that did not (or could not) claim leave their pot behind: that part is accounted separately
			unclaimed := voterPot.Sub(voterPaid)
			if unclaimed.IsNegative() {
				unclaimed = math.ZeroInt()
			}
			if res.Sub(unclaimed).Sub(explained).GT(bound) {
				fail("residual-unexplained|"+rc+"|"+cls, fmt.Sprintf("after all parties claimed %s remains in dispute escrow, of which unclaimed voter pot %s and %s are accounted for by the claim/return shortfalls reported for this settlement; dust bound %s", res, unclaimed, explained, bound))
			}
		}
	}
}

func anyRepeat(l *famLedger) bool {
	for _, v := range l.Repeat {
		if v {
			return true
		}
	}
	return false
}

func checkC13(rc *RunCtx) {
	mons := []Monitor{SettleMonitor{}}
	depth := 5
	if !rc.Quick() {
		depth = 7
	}
	keep := func(l string) bool {
		return hasAnyPrefix(l, "Propose(Payer,R1rep,warning,full)", "Propose(Payer,R1rep,warning,half)", "Propose(Payer,R1rep,minor,full)", "Propose(R2,R1rep,warning,frombond)",
			"AddFee(Payer,last,rest)", "AddFee(Tipper,last,1)", "AddFee(R2,last,rest,frombond)",
			"Vote(Team,", "Vote(R2,against)", "Vote(S1,invalid)", "Vote(Tipper,support)", "Vote(Payer,support)")
	}
	gaps := []time.Duration{time.Second, 24*time.Hour + time.Millisecond, 48*time.Hour + time.Millisecond, 72*time.Hour + time.Millisecond}
	prep := []string{"Tip(cyc,1000)", "Submit(R1,cyc,std)", "Submit(R2,cyc,std200)", b1, b1, b1}
	hz := []time.Duration{48*time.Hour + time.Millisecond, 24*time.Hour + time.Millisecond, time.Second, 72*time.Hour + time.Millisecond, time.Second}
	focusedDFS(rc, "settle-dfs", Config{}, false, prep, keep, gaps, mons, depth, hz)
	// multi-round families need more depth than the DFS affords: dedicated prefixes
	for i, pre := range [][]string{
		{"Propose(Payer,R1rep,warning,full)", "Vote(S2,against)", "Block(48h0m0.001s)", "Propose(Payer,R1rep,warning,full)"},
		{"Propose(Payer,R1rep,warning,half)", "AddFee(R2,last,rest,frombond)", "Vote(S2,against)", "Block(48h0m0.001s)", "Propose(Tipper,R1rep,warning,full)"},
		{"Propose(Payer,R1rep,warning,full)", "Vote(S2,against)", "Block(48h0m0.001s)", "Propose(Payer,R1rep,warning,full)", "Vote(S2,support)", "Block(48h0m0.001s)", "Propose(Payer,R1rep,warning,full)"},
	} {
		d := 3
		if !rc.Quick() {
			d = 4
		}
		focusedDFS(rc, fmt.Sprintf("settle-rounds-%d", i), Config{}, false, append(append([]string(nil), prep...), pre...), func(l string) bool {
			return keep(l) || l == "Propose(Tipper,R1rep,warning,full)" || l == "Vote(S2,against)" || l == "Vote(S2,support)"
		}, gaps, mons, d, hz)
	}
	if rc.Replay == nil || !strings.HasPrefix(rc.Replay.Scenario, "settle-") {
		// shared skeletons with minting off so that supply changes in a block are burns
		for _, s := range Skeletons() {
			if s.MintOn || (rc.Replay != nil && rc.Replay.Scenario != s.Name) {
				continue
			}
			w, _, sk, alpha0 := BuildSkeleton(s)
			// minting stays off: with inflation on, delegation changes auto-withdraw staking rewards into the
			// accounts whose payouts the ledger measures
			alpha := func(w *World) []Event {
				var out []Event
				for _, ev := range alpha0(w) {
					if ev.Tag != "mintinit" {
						out = append(out, ev)
					}
				}
				return out
			}
			e := &Explorer{RC: rc, Scenario: s.Name, Monitors: mons, Horizon: QuiesceHorizon}
			if rc.Replay != nil {
				end := e.ReplayTrace(w, rc.Replay.Trace, Resolver(sk, alpha))
				if end.Halt == nil {
					e.RunHorizon(end)
				}
				return
			}
			e.Deviations(w, sk, alpha, kOf(rc))
		}
	}
	_ = bytes.Equal
	_ = sort.Strings
}
