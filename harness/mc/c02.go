//go:build verif

package mc

import (
	"fmt"
	"strings"
	"time"
)

// Skeleton is a named deterministic happy path (labels resolved in the full alphabet).
type Skeleton struct {
	Name   string
	Cfg    Config
	MintOn bool
	Deep   func(w *World, c *Cast) // extra deterministic set-up executed once per worker
	Labels []string
}

const b1 = "Block(1s)"

// Skeletons are the shared happy paths (DESIGN §C02); they are reused by the
// global-monitor checks (C03, C04, C05, C19).
func Skeletons() []Skeleton {
	return []Skeleton{
		{Name: "round", MintOn: true, Labels: []string{
			"Tip(cyc,1000)", "Submit(R1,cyc,std)", "Submit(R2,cyc,std200)", b1, b1, b1,
			"Tip(modeq,50)", "Submit(R1,modeq,std)", "Submit(R2,modeq,std200)", b1, b1, b1,
			"WithdrawTip(R1,V1)", "WithdrawTip(S2,V1)", b1,
		}},
		{Name: "tip-no-report", MintOn: true, Labels: []string{
			"Tip(modeq,1000001)", b1, b1, b1, b1, "Tip(modeq,49)", "Submit(R1,modeq,std)", b1, b1, b1, "Tip(modeq2,777)", b1, b1, b1, b1,
		}},
		{Name: "dispute", MintOn: false, Labels: []string{
			"Tip(cyc,1000)", "Submit(R1,cyc,std)", "Submit(R2,cyc,std200)", b1, b1, b1,
			"Propose(Payer,R1rep,warning,full)", "Vote(R2,against)", "Vote(S1,invalid)", "Vote(Team,support)", "Vote(Tipper,support)",
			"Block(48h0m0.001s)", "Block(24h0m0.001s)", "FeeRefund(Payer)", "ClaimReward(Team)", "ClaimReward(R2)", "Unjail(R1)", b1,
		}},
		{Name: "dispute-partial", MintOn: false, Labels: []string{
			"Submit(R1,cyc,std)", "Submit(R2,cyc,std200)", b1, b1, b1,
			"Propose(Payer,R1rep,warning,half)", "AddFee(Tipper,last,1)", "AddFee(R2,last,rest,frombond)",
			"Vote(Team,against)", "Block(48h0m0.001s)", "Block(24h0m0.001s)", "FeeRefund(Payer)", "FeeRefund(R2)", "FeeRefund(Tipper)", b1,
		}},
		// two voting rounds with different turnout: the larger voter only in round one, a smaller one only in round two
		{Name: "dispute-rounds", MintOn: false, Labels: []string{
			"Tip(cyc,1000)", "Submit(R1,cyc,std)", "Submit(R2,cyc,std200)", b1, b1, b1,
			"Propose(Payer,R1rep,warning,full)", "Vote(R2,against)", "Block(48h0m0.001s)",
			"Propose(Payer,R1rep,warning,full)", "Vote(Tipper,support)", "Block(48h0m0.001s)", "Block(24h0m0.001s)",
			"ClaimReward(R2)", "ClaimReward(Tipper)", "FeeRefund(Payer)", "FeeRefund(Payer,first)", b1,
		}},
		// two queries reported (and aggregated) in the same blocks, then the report on either of them disputed
		{Name: "dispute-sibling", MintOn: false, Labels: []string{
			"Tip(modeq,50)", "Submit(R1,cyc,std)", "Submit(R1,modeq,std)", "Submit(R2,cyc,std200)", "Submit(R2,modeq,std200)", b1, b1, b1, b1,
			"Propose(Payer,R1rep,warning,full)", "Vote(Team,invalid)", b1, "Unjail(R1)", "Propose(Payer,R1lastrep,warning,full)", "Vote(Team,support)",
			"Block(48h0m0.001s)", "Block(24h0m0.001s)", b1,
		}},
		// the reporter wins (stake and fee share are handed back to three backers) and the backing stake is not a whole
		// number of tokens, so every proportional share carries a fraction
		{Name: "dispute-against-odd", MintOn: false, Labels: []string{
			"Delegate(R1,V1,800loya)", "Delegate(S1,V1,800loya)", "Delegate(S3,V2,400loya)", "Submit(R1,cyc,std)", "Submit(R2,cyc,std200)", b1, b1, b1,
			"Propose(Payer,R1rep,warning,full)", "Vote(Team,against)", "Vote(R2,against)", "Block(48h0m0.001s)", "Block(24h0m0.001s)",
			"FeeRefund(Payer)", "ClaimReward(Team)", "ClaimReward(R2)", b1,
		}},
		// four payers whose refund shares carry fractions that add up to more than one unit of dust
		{Name: "dispute-dust", MintOn: false, Labels: []string{
			"Submit(R1,cyc,std)", "Submit(R2,cyc,std200)", b1, b1, b1,
			"Propose(Payer,R1rep,warning,half)", "AddFee(Tipper,last,1)", "AddFee(S1,last,1)", "AddFee(S3,last,3)", "AddFee(Payer,last,rest)",
			"Vote(Team,invalid)", "Block(48h0m0.001s)", "Block(24h0m0.001s)",
			"FeeRefund(Tipper)", "FeeRefund(S1)", "FeeRefund(S3)", "FeeRefund(Payer)", "ClaimReward(Team)", b1,
		}},
		// a deposit round that closes while the next one is being opened in the same block, next to a cycle-list round
		{Name: "deposit-closing", MintOn: true, Deep: deepDepositOpen, Labels: []string{
			b1, "Submit(R1,cyc,std)", "Submit(R2,cyc,std200)", b1, b1,
			"Submit(R2,dep1,valid)", "Submit(R1,dep1,valid)", "Submit(R2,dep1,valid2)", b1, b1, b1, b1,
		}},
		{Name: "bridge", MintOn: true, Deep: deepDeposit, Labels: []string{
			"Block(12h0m0s)", "ClaimDeposits(Payer,[1],[0])", "WithdrawTokens(Tipper,20b,1e6)", b1, "RequestAttest(eth,last)", b1,
			"Delegate(Payer,V3,150)", b1, "WithdrawTokens(Tipper,20b,1)", b1,
		}},
		{Name: "governance", MintOn: true, Labels: []string{
			"Delegate+Select(Tipper->R1,split)", "Cyclelist(gov,+modeq)", b1, b1, b1, "UpdateSpec(gov,modeq,w=5)", "Tip(modeq,50)", "Submit(R1,modeq,std)", b1, b1, b1, b1, b1, b1,
			"ReporterParams(gov,maxsel=1)", "RemoveSelector(Payer,Tipper)", "RemoveSelector(Payer,S1)", "OracleParams(gov,minstake=0)", "Cyclelist(gov,[btc,eth])", b1, b1, b1, b1,
		}},
		// three aggregates of one query, then attestations requested for the first, a middle and the last of them
		{Name: "attest-history", MintOn: false, Labels: []string{
			"Tip(modeq,50)", "Submit(R1,modeq,std)", b1, b1, b1, "Tip(modeq,50)", "Submit(R2,modeq,std200)", b1, b1, b1,
			"Tip(modeq,50)", "Submit(R1,modeq,std)", b1, b1, b1, "RequestAttest(modeq,first)", b1, "RequestAttest(modeq,middle)", "RequestAttest(modeq,last)", b1, b1,
		}},
		// a weighted-mode query whose mode differs from its median, aggregated in the same block as (and, by id, after) a
		// weighted-median query - once per cycle-list query
		{Name: "mode-after-median", MintOn: true, Cfg: Config{ValStakes: []int64{5000, 3000, 2900}}, Labels: []string{
			"Tip(modeq3,50)", "Submit(RV1,modeq3,7)", "Submit(RV2,modeq3,8)", "Submit(RV3,modeq3,9)", "Submit(R1,cyc,std)", b1, b1,
			"Tip(modeq3,50)", "Submit(RV1,modeq3,7)", "Submit(RV2,modeq3,8)", "Submit(RV3,modeq3,9)", "Submit(R1,cyc,std)", b1, b1,
			"Tip(modeq3,50)", "Submit(RV1,modeq3,7)", "Submit(RV2,modeq3,8)", "Submit(RV3,modeq3,9)", "Submit(R1,cyc,std)", b1, b1, b1,
		}},
		{Name: "round-maxval2", MintOn: true, Cfg: Config{ValStakes: []int64{5000, 3000, 2900}, MaxValidators: 2}, Labels: []string{
			"Submit(R1,cyc,std)", "Submit(R2,cyc,std200)", b1, b1, b1, "Delegate(Payer,V3,150)", b1, b1,
			"Propose(Payer,R2rep,minor,full)", "Vote(Team,invalid)", "Block(48h0m0.001s)", "Block(24h0m0.001s)", b1,
		}},
	}
}

// deepDeposit produces a real end-to-end deposit aggregate: both validator
// reporters (> 2/3 of validator power) report deposit 1, then the 2 000-block
// window is run out.
func deepDeposit(w *World, c *Cast) {
	val := DepositValue(c.Payer.Acc.String(), bigMul(5_000_000, 1e12), bigMul(1_000, 1e12))
	must(w, "dep RV1", MsgSubmit(c.RV1.Acc, c.Dep1, val))
	must(w, "dep RV2", MsgSubmit(c.RV2.Acc, c.Dep1, val))
	for i := 0; i < 2001; i++ {
		mustBlock(w, time.Second)
	}
	if len(w.Aggregates()) == 0 {
		panic("deepDeposit: no aggregate produced")
	}
}

// deepDepositOpen leaves a deposit round (reported by R1 only) a few blocks before the end of its 2 000-block window.
func deepDepositOpen(w *World, c *Cast) {
	val := DepositValue(c.Payer.Acc.String(), bigMul(5_000_000, 1e12), bigMul(1_000, 1e12))
	must(w, "dep R1", MsgSubmit(c.R1.Acc, c.Dep1, val))
	for i := 0; i < depositOpenBlocks; i++ {
		mustBlock(w, time.Second)
	}
}

var depositOpenBlocks = 1997

// BuildSkeleton instantiates a skeleton on a fresh world.
func BuildSkeleton(s Skeleton) (*World, *Cast, []Event, func(*World) []Event) {
	w := NewWorld(s.Cfg)
	c := StdSetup(w, s.MintOn)
	if s.Deep != nil {
		s.Deep(w, c)
	}
	alpha := FullAlphabet(c)
	var sk []Event
	for _, l := range s.Labels {
		if strings.HasPrefix(l, "Block(") {
			d, err := time.ParseDuration(l[6 : len(l)-1])
			if err != nil {
				panic(err)
			}
			sk = append(sk, BlockEv(d))
		} else {
			sk = append(sk, Pick(alpha, l))
		}
	}
	w.Trace = nil
	return w, c, sk, WithBlocks(alpha)
}

type haltMonitor struct{}

func (haltMonitor) Pre(w *World) interface{} { return nil }
func (haltMonitor) Post(e *Explorer, before, w *World, _ interface{}, ev *Event, out Outcome) {
	if out.Kind != "halt" {
		return
	}
	h := w.Halt
	sig := "halt|" + h.Phase + "|" + NormErr(h.Err)
	if h.Panic {
		sig += "|at=" + callSite(h.Stack)
	}
	e.Violate(w, "block-processing", sig,
		h.String()+" — deviations from skeleton "+e.Scenario+": ["+strings.Join(w.Devs, ", ")+"] then "+ev.Label)
}

// callSite extracts the innermost repository frame of a panic stack.
func callSite(stack string) string {
	lines := strings.Split(stack, "\n")
	seenPanic := false
	for _, l := range lines {
		if strings.HasPrefix(l, "panic(") {
			seenPanic = true
			continue
		}
		if !seenPanic || strings.HasPrefix(l, "\t") {
			continue
		}
		if strings.Contains(l, "github.com/tellor-io/layer/") && !strings.Contains(l, "zzverif") {
			if i := strings.LastIndex(l, "("); i > 0 {
				l = l[:i]
			}
			return strings.TrimPrefix(l, "github.com/tellor-io/layer/")
		}
	}
	return "?"
}

func init() {
	Register("C02", &CheckInfo{
		Fn: checkC02, Level: "model_checking",
		Rule: "deviation-bounded histories (<=k inserted/substituted events from the full message alphabet, every message type in valid/boundary/malformed variants, 8 block gaps from 1ms to 21d+1s) around 7 skeletons on the real app; every history run to a 9-block quiescence horizon; oracle: Pre/Begin/EndBlocker never error or panic",
		Assume: []string{"at least one bonded validator with a registered EVM address exists from height 2 (operator obligation; DESIGN §2.6)",
			"signature/fee/sequence ante decorators are SDK code and not executed; the repository's stake-change decorator is", "IBC/ICQ/group/authz messages and x/slashing evidence are outside the alphabet"},
		QuickBudget: 10 * time.Minute, ThoroughBudget: 15 * time.Minute,
	})
}

func checkC02(rc *RunCtx) {
	k := 1
	if !rc.Quick() {
		k = 2
	}
	for _, s := range Skeletons() {
		if rc.Replay != nil && rc.Replay.Scenario != s.Name {
			continue
		}
		w, _, sk, alpha := BuildSkeleton(s)
		e := &Explorer{RC: rc, Scenario: s.Name, Monitors: []Monitor{haltMonitor{}}, Horizon: QuiesceHorizon}
		if rc.Replay != nil {
			end := e.ReplayTrace(w, rc.Replay.Trace, Resolver(sk, alpha))
			if end.Halt == nil {
				e.RunHorizon(end)
			}
			return
		}
		// bound 0, then 1 (, then 2): the first counterexample has the fewest deviations
		for b := 0; b <= k; b++ {
			if b > 0 && b < k {
				continue // bound b is subsumed by bound k (<=k deviations); kept simple
			}
			e.Deviations(w, sk, alpha, b)
		}
		rc.Sample(map[string]interface{}{"skeleton": s.Name, "events": s.Labels})
	}
}

// ShowSkeletons prints the outcome of every skeleton step (vacuity inspection).
func ShowSkeletons(names []string) {
	if len(names) > 0 {
		// the C01-only skeletons use events of the C01 alphabet
		for _, s := range c01Skeletons() {
			if s.Name != names[0] || isSkeleton(s.Name) {
				continue
			}
			w := NewWorld(s.Cfg)
			c := StdSetup(w, s.MintOn)
			resolve := Resolver(nil, WithBlocks(c01Alphabet(c)))
			println("== C01 skeleton", s.Name)
			for _, l := range s.Labels {
				ev, ok := resolve(w, l)
				if !ok {
					println("  cannot resolve", l)
					continue
				}
				out := ev.Apply(w)
				idx, _ := w.App.BridgeKeeper.LatestCheckpointIdx.Get(w.Ctx)
				fmt.Printf("  h %d %s -> %s %s (checkpoint index %d, aggregates %d)\n", w.Height(), l, out.Kind, out.Err, idx.Index, len(w.Aggregates()))
				if vs, err := w.App.BridgeKeeper.BridgeValset.Get(w.Ctx); err == nil {
					for _, v := range vs.BridgeValidatorSet {
						fmt.Printf("      stored set member %x power %d\n", v.EthereumAddress[:3], v.Power)
					}
				}
				if cur, err := w.App.BridgeKeeper.GetCurrentValidatorsEVMCompatible(w.Ctx); err == nil {
					for _, v := range cur {
						fmt.Printf("      current member %x power %d\n", v.EthereumAddress[:3], v.Power)
					}
				}
			}
			return
		}
	}
	for _, s := range Skeletons() {
		if len(names) > 0 && names[0] != s.Name {
			continue
		}
		w, _, sk, _ := BuildSkeleton(s)
		println("== skeleton", s.Name)
		rc := newRunCtx("C02", "quick")
		rc.Deadline = time.Now().Add(time.Hour)
		e := &Explorer{RC: rc, Scenario: s.Name}
		cur := w
		for _, ev := range sk {
			n, out := e.Step(cur, ev)
			println("  h", n.Height(), ev.Label, "->", out.Kind, out.Err)
			cur = n
			if out.Kind == "halt" {
				break
			}
		}
		println("  aggregates:", len(cur.Aggregates()), "disputes:", len(cur.Disputes()), "supply:", cur.Supply().String())
		for _, a := range cur.Aggregates() {
			fmt.Printf("   aggregate q=%x.. height=%d micro=%d reporters=%d power=%d flagged=%v\n", a.QueryId[:4], a.Agg.Height, a.Agg.MicroHeight, len(a.Agg.Reporters), a.Agg.ReporterPower, a.Agg.Flagged)
		}
		for _, q := range cur.Queries() {
			fmt.Printf("   open query q=%x.. id=%d exp=%d amount=%s reports=%v\n", q.QueryId[:4], q.Meta.Id, q.Meta.Expiration, q.Meta.Amount, q.Meta.HasRevealedReports)
		}
		for _, d := range cur.Disputes() {
			println("   dispute", d.DisputeId, d.DisputeStatus.String(), "open", d.Open, "pending", d.PendingExecution, "fee", d.FeeTotal.String(), "slash", d.SlashAmount.String())
		}
	}
}
