//go:build verif

package mc

import (
	"bytes"
	"encoding/hex"
	"fmt"
	"math/big"
	"regexp"
	"strings"

	"github.com/ethereum/go-ethereum/accounts/abi"
	"github.com/tellor-io/layer/utils"
	bridgetypes "github.com/tellor-io/layer/x/bridge/types"
	disputetypes "github.com/tellor-io/layer/x/dispute/types"
	minttypes "github.com/tellor-io/layer/x/mint/types"
	oracletypes "github.com/tellor-io/layer/x/oracle/types"
	registrytypes "github.com/tellor-io/layer/x/registry/types"
	reportertypes "github.com/tellor-io/layer/x/reporter/types"

	"cosmossdk.io/collections"
	"cosmossdk.io/math"

	sdk "github.com/cosmos/cosmos-sdk/types"
	banktypes "github.com/cosmos/cosmos-sdk/x/bank/types"
	stakingtypes "github.com/cosmos/cosmos-sdk/x/staking/types"
)

// ---- query data ---------------------------------------------------------------

func mustType(t string) abi.Type {
	ty, err := abi.NewType(t, "", nil)
	if err != nil {
		panic(err)
	}
	return ty
}

// QueryData builds abi.encode(string queryType, bytes args).
func QueryData(queryType string, args []byte) []byte {
	bz, err := abi.Arguments{{Type: mustType("string")}, {Type: mustType("bytes")}}.Pack(queryType, args)
	if err != nil {
		panic(err)
	}
	return bz
}

// SpotQuery is SpotPrice(asset, currency) query data.
func SpotQuery(asset, cur string) []byte {
	a, err := abi.Arguments{{Type: mustType("string")}, {Type: mustType("string")}}.Pack(asset, cur)
	if err != nil {
		panic(err)
	}
	return QueryData("SpotPrice", a)
}

// BridgeQuery is TRBBridge(toLayer, id) query data (deposit when toLayer).
func BridgeQuery(toLayer bool, id uint64) []byte {
	a, err := abi.Arguments{{Type: mustType("bool")}, {Type: mustType("uint256")}}.Pack(toLayer, new(big.Int).SetUint64(id))
	if err != nil {
		panic(err)
	}
	return QueryData("TRBBridge", a)
}

// CustomQuery is query data of an arbitrary registered type with one uint256 arg.
func CustomQuery(qt string, n uint64) []byte {
	a, err := abi.Arguments{{Type: mustType("uint256")}}.Pack(new(big.Int).SetUint64(n))
	if err != nil {
		panic(err)
	}
	return QueryData(qt, a)
}

func QID(qd []byte) []byte { return utils.QueryIDFromData(qd) }

// U256 is a 32-byte hex value.
func U256(n int64) string { return fmt.Sprintf("%064x", n) }

// DepositValue encodes (address ethSender, string layerRecipient, uint256 amount, uint256 tip).
func DepositValue(recipient string, amount, tip *big.Int) string {
	bz, err := abi.Arguments{{Type: mustType("address")}, {Type: mustType("string")}, {Type: mustType("uint256")}, {Type: mustType("uint256")}}.
		Pack([20]byte{0xaa, 0xbb}, recipient, amount, tip)
	if err != nil {
		panic(err)
	}
	return hex.EncodeToString(bz)
}

// ---- message builders -----------------------------------------------------------

func MsgDelegate(d sdk.AccAddress, v *Validator, amt int64) sdk.Msg {
	return &stakingtypes.MsgDelegate{DelegatorAddress: d.String(), ValidatorAddress: v.Val.String(), Amount: Coin(amt)}
}

func MsgUndelegate(d sdk.AccAddress, v *Validator, amt int64) sdk.Msg {
	return &stakingtypes.MsgUndelegate{DelegatorAddress: d.String(), ValidatorAddress: v.Val.String(), Amount: Coin(amt)}
}

func MsgRedelegate(d sdk.AccAddress, src, dst *Validator, amt int64) sdk.Msg {
	return &stakingtypes.MsgBeginRedelegate{DelegatorAddress: d.String(), ValidatorSrcAddress: src.Val.String(), ValidatorDstAddress: dst.Val.String(), Amount: Coin(amt)}
}

func MsgCancelUnbond(d sdk.AccAddress, v *Validator, amt, height int64) sdk.Msg {
	return &stakingtypes.MsgCancelUnbondingDelegation{DelegatorAddress: d.String(), ValidatorAddress: v.Val.String(), Amount: Coin(amt), CreationHeight: height}
}

func MsgSend(from, to sdk.AccAddress, amt int64) sdk.Msg {
	return &banktypes.MsgSend{FromAddress: from.String(), ToAddress: to.String(), Amount: sdk.NewCoins(Coin(amt))}
}

func MsgCreateReporter(r sdk.AccAddress, commission string, minTokens int64) sdk.Msg {
	return &reportertypes.MsgCreateReporter{ReporterAddress: r.String(), CommissionRate: math.LegacyMustNewDecFromStr(commission), MinTokensRequired: math.NewInt(minTokens)}
}

func MsgSelect(s, r sdk.AccAddress) sdk.Msg {
	return &reportertypes.MsgSelectReporter{SelectorAddress: s.String(), ReporterAddress: r.String()}
}

func MsgSwitch(s, r sdk.AccAddress) sdk.Msg {
	return &reportertypes.MsgSwitchReporter{SelectorAddress: s.String(), ReporterAddress: r.String()}
}

func MsgRemoveSelector(anyone, s sdk.AccAddress) sdk.Msg {
	return &reportertypes.MsgRemoveSelector{AnyAddress: anyone.String(), SelectorAddress: s.String()}
}

func MsgUnjail(r sdk.AccAddress) sdk.Msg {
	return &reportertypes.MsgUnjailReporter{ReporterAddress: r.String()}
}

func MsgWithdrawTip(s sdk.AccAddress, v *Validator) sdk.Msg {
	return &reportertypes.MsgWithdrawTip{SelectorAddress: s.String(), ValidatorAddress: v.Val.String()}
}

func MsgTip(t sdk.AccAddress, qd []byte, amt int64) sdk.Msg {
	return &oracletypes.MsgTip{Tipper: t.String(), QueryData: qd, Amount: Coin(amt)}
}

func MsgSubmit(r sdk.AccAddress, qd []byte, value string) sdk.Msg {
	return &oracletypes.MsgSubmitValue{Creator: r.String(), QueryData: qd, Value: value}
}

func MsgPropose(c sdk.AccAddress, rep oracletypes.MicroReport, cat disputetypes.DisputeCategory, fee int64, fromBond bool) sdk.Msg {
	r := rep
	return &disputetypes.MsgProposeDispute{Creator: c.String(), Report: &r, DisputeCategory: cat, Fee: Coin(fee), PayFromBond: fromBond}
}

func MsgAddFee(c sdk.AccAddress, id uint64, amt int64, fromBond bool) sdk.Msg {
	return &disputetypes.MsgAddFeeToDispute{Creator: c.String(), DisputeId: id, Amount: Coin(amt), PayFromBond: fromBond}
}

func MsgVote(v sdk.AccAddress, id uint64, choice disputetypes.VoteEnum) sdk.Msg {
	return &disputetypes.MsgVote{Voter: v.String(), Id: id, Vote: choice}
}

func MsgClaimReward(c sdk.AccAddress, id uint64) sdk.Msg {
	return &disputetypes.MsgClaimReward{CallerAddress: c.String(), DisputeId: id}
}

func MsgFeeRefund(caller, payer sdk.AccAddress, id uint64) sdk.Msg {
	return &disputetypes.MsgWithdrawFeeRefund{CallerAddress: caller.String(), PayerAddress: payer.String(), Id: id}
}

func MsgAddEvidence(c sdk.AccAddress, id uint64, reps ...oracletypes.MicroReport) sdk.Msg {
	var l []*oracletypes.MicroReport
	for i := range reps {
		r := reps[i]
		l = append(l, &r)
	}
	return &disputetypes.MsgAddEvidence{CallerAddress: c.String(), DisputeId: id, Reports: l}
}

func MsgUpdateTeam(cur, nw sdk.AccAddress) sdk.Msg {
	return &disputetypes.MsgUpdateTeam{CurrentTeamAddress: cur.String(), NewTeamAddress: nw.String()}
}

func MsgWithdrawTokens(c sdk.AccAddress, recipientHex string, amt int64) sdk.Msg {
	return &bridgetypes.MsgWithdrawTokens{Creator: c.String(), Recipient: recipientHex, Amount: Coin(amt)}
}

func MsgClaimDeposits(c sdk.AccAddress, ids, idx []uint64) sdk.Msg {
	return &bridgetypes.MsgClaimDepositsRequest{Creator: c.String(), DepositIds: ids, Indices: idx}
}

func MsgRequestAttest(c sdk.AccAddress, qid []byte, ts uint64) sdk.Msg {
	return &bridgetypes.MsgRequestAttestations{Creator: c.String(), QueryId: hex.EncodeToString(qid), Timestamp: fmt.Sprint(ts)}
}

func MsgSnapshotLimit(auth string, n uint64) sdk.Msg {
	return &bridgetypes.MsgUpdateSnapshotLimit{Authority: auth, Limit: n}
}

func MsgMintInit(auth string) sdk.Msg { return &minttypes.MsgInit{Authority: auth} }

func MsgCyclelist(auth string, l ...[]byte) sdk.Msg {
	return &oracletypes.MsgUpdateCyclelist{Authority: auth, Cyclelist: l}
}

func MsgOracleParams(auth string, minStake int64) sdk.Msg {
	return &oracletypes.MsgUpdateParams{Authority: auth, Params: oracletypes.Params{MinStakeAmount: math.NewInt(minStake)}}
}

func MsgReporterParams(auth string, minTrb int64, maxSel uint64) sdk.Msg {
	return &reportertypes.MsgUpdateParams{Authority: auth, Params: reportertypes.Params{MinCommissionRate: math.LegacyZeroDec(), MinTrb: math.NewInt(minTrb), MaxSelectors: maxSel}}
}

func Spec(valueType, method string, window uint64) registrytypes.DataSpec {
	return registrytypes.DataSpec{ResponseValueType: valueType, AggregationMethod: method, ReportBlockWindow: window,
		AbiComponents: []*registrytypes.ABIComponent{{Name: "n", FieldType: "uint256"}}}
}

func MsgRegisterSpec(r sdk.AccAddress, qt string, s registrytypes.DataSpec) sdk.Msg {
	return &registrytypes.MsgRegisterSpec{Registrar: r.String(), QueryType: qt, Spec: s}
}

func MsgUpdateSpec(auth, qt string, s registrytypes.DataSpec) sdk.Msg {
	return &registrytypes.MsgUpdateDataSpec{Authority: auth, QueryType: qt, Spec: s}
}

// ---- state getters --------------------------------------------------------------

// CycleQuery returns the query data the cycle list currently points at.
func (w *World) CycleQuery() (out []byte) {
	defer func() {
		if recover() != nil {
			out = nil
		}
	}()
	qd, err := w.App.OracleKeeper.GetCurrentQueryInCycleList(w.Ctx)
	if err != nil {
		return nil
	}
	return qd
}

// Reports returns all stored micro-reports (in store order).
func (w *World) Reports() []oracletypes.MicroReport {
	var out []oracletypes.MicroReport
	_ = w.App.OracleKeeper.Reports.Walk(w.Ctx, nil, func(_ collections.Triple[[]byte, []byte, uint64], v oracletypes.MicroReport) (bool, error) {
		out = append(out, v)
		return false, nil
	})
	return out
}

// ReportsBy returns the stored micro-reports of one reporter.
func (w *World) ReportsBy(r sdk.AccAddress) []oracletypes.MicroReport {
	var out []oracletypes.MicroReport
	for _, rep := range w.Reports() {
		if rep.Reporter == r.String() {
			out = append(out, rep)
		}
	}
	return out
}

type AggKV struct {
	QueryId []byte
	Ts      uint64
	Agg     oracletypes.Aggregate
}

// Aggregates returns the whole aggregate collection in key order.
func (w *World) Aggregates() []AggKV {
	var out []AggKV
	_ = w.App.OracleKeeper.Aggregates.Walk(w.Ctx, nil, func(k collections.Pair[[]byte, uint64], v oracletypes.Aggregate) (bool, error) {
		out = append(out, AggKV{QueryId: k.K1(), Ts: k.K2(), Agg: v})
		return false, nil
	})
	return out
}

type QueryKV struct {
	QueryId []byte
	Meta    oracletypes.QueryMeta
}

func (w *World) Queries() []QueryKV {
	var out []QueryKV
	_ = w.App.OracleKeeper.Query.Walk(w.Ctx, nil, func(k collections.Pair[[]byte, uint64], v oracletypes.QueryMeta) (bool, error) {
		out = append(out, QueryKV{QueryId: k.K1(), Meta: v})
		return false, nil
	})
	return out
}

func (w *World) Disputes() []disputetypes.Dispute {
	var out []disputetypes.Dispute
	_ = w.App.DisputeKeeper.Disputes.Walk(w.Ctx, nil, func(_ uint64, v disputetypes.Dispute) (bool, error) {
		out = append(out, v)
		return false, nil
	})
	return out
}

// SelectorTips returns selector -> credit.
func (w *World) SelectorTips() map[string]math.LegacyDec {
	out := map[string]math.LegacyDec{}
	_ = w.App.ReporterKeeper.SelectorTips.Walk(w.Ctx, nil, func(k []byte, v math.LegacyDec) (bool, error) {
		out[sdk.AccAddress(k).String()] = v
		return false, nil
	})
	return out
}

var digitRun = regexp.MustCompile(`[0-9]+`)

func short(s string) string {
	if len(s) > 12 {
		return s[:6] + ".." + s[len(s)-4:]
	}
	return s
}

// NormErr strips addresses/numbers out of an error string so that it can be
// part of a stable violation signature.
func NormErr(s string) string {
	var b strings.Builder
	for _, f := range strings.Fields(s) {
		if strings.HasPrefix(f, "tellor1") || strings.HasPrefix(f, "tellorvaloper1") {
			f = "<addr>"
		}
		b.WriteString(f)
		b.WriteByte(' ')
	}
	out := digitRun.ReplaceAllString(strings.TrimSpace(b.String()), "N")
	if len(out) > 160 {
		out = out[:160]
	}
	return out
}

func bigMul(a, b int64) *big.Int { return new(big.Int).Mul(big.NewInt(a), big.NewInt(b)) }

var depositIDsAroundCache = map[uint64][2]uint64{}

// DepositIDsAround returns two other deposit ids whose query ids sort before and after the query id of deposit id
// (the aggregate store is ordered by query id, so these are the neighbours a range scan could run into).
func DepositIDsAround(id uint64) (before, after uint64) {
	if r, ok := depositIDsAroundCache[id]; ok {
		return r[0], r[1]
	}
	ref := QID(BridgeQuery(true, id))
	for x := id + 1000; before == 0 || after == 0; x++ {
		c := bytes.Compare(QID(BridgeQuery(true, x)), ref)
		if c < 0 && before == 0 {
			before = x
		}
		if c > 0 && after == 0 {
			after = x
		}
	}
	depositIDsAroundCache[id] = [2]uint64{before, after}
	return
}
