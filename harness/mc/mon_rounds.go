//go:build verif

package mc

import (
	"bytes"
	"fmt"
	"math/big"
	"sort"
	"strings"
	"time"

	"github.com/ethereum/go-ethereum/accounts/abi"
	oracletypes "github.com/tellor-io/layer/x/oracle/types"
	reportertypes "github.com/tellor-io/layer/x/reporter/types"

	"cosmossdk.io/collections"
	"cosmossdk.io/math"

	sdk "github.com/cosmos/cosmos-sdk/types"
	stakingtypes "github.com/cosmos/cosmos-sdk/x/staking/types"
)

// ---- independent recomputation of a reporter's stake (C10 reference) -------------------

type originRef struct {
	del, val string
	amt      math.Int
}

// refReporterStake recomputes, from the staking and reporter stores only, the
// bonded stake behind a reporter: all delegations of every selector that is
// not inside its switch lock, to validators that are bonded, truncated to
// whole loya per delegation.
func refReporterStake(w *World, reporter sdk.AccAddress) (total math.Int, origins []originRef) {
	total = math.ZeroInt()
	now := w.Time()
	_ = w.App.ReporterKeeper.Selectors.Walk(w.Ctx, nil, func(k []byte, s reportertypes.Selection) (bool, error) {
		if !bytes.Equal(s.Reporter, reporter) || s.LockedUntilTime.After(now) {
			return false, nil
		}
		dels, _ := w.App.StakingKeeper.GetDelegatorDelegations(w.Ctx, sdk.AccAddress(k), 1000)
		for _, d := range dels {
			va, _ := sdk.ValAddressFromBech32(d.ValidatorAddress)
			v, err := w.App.StakingKeeper.GetValidator(w.Ctx, va)
			if err != nil || v.Status != stakingtypes.Bonded {
				continue
			}
			t := v.TokensFromShares(d.Shares).TruncateInt()
			total = total.Add(t)
			origins = append(origins, originRef{sdk.AccAddress(k).String(), va.String(), t})
		}
		return false, nil
	})
	return
}

func originKey(o []originRef) string {
	l := make([]string, len(o))
	for i, x := range o {
		l[i] = x.del + "/" + x.val + "/" + x.amt.String()
	}
	sort.Strings(l)
	return strings.Join(l, ",")
}

// isWithdrawalQuery decodes query data independently: TRBBridge with toLayer == false.
func bridgeQueryKind(qd []byte) (isBridge, toLayer bool) {
	outer, err := abi.Arguments{{Type: mustType("string")}, {Type: mustType("bytes")}}.Unpack(qd)
	if err != nil || len(outer) != 2 {
		return false, false
	}
	if s, ok := outer[0].(string); !ok || s != "TRBBridge" {
		return false, false
	}
	inner, err := abi.Arguments{{Type: mustType("bool")}, {Type: mustType("uint256")}}.Unpack(outer[1].([]byte))
	if err != nil || len(inner) != 2 {
		return true, false
	}
	return true, inner[0].(bool)
}

// ---------------------------------------------------------------------------
// C10: reporting power = bonded stake of active selectors, counted once
// ---------------------------------------------------------------------------

type PowerMonitor struct{}

func (PowerMonitor) Pre(w *World) interface{} { return nil }

func (PowerMonitor) Post(e *Explorer, before, w *World, _ interface{}, ev *Event, out Outcome) {
	if out.Kind != "tx-ok" || ev.Msgs == nil {
		return
	}
	fail := func(oracle, detail string) {
		e.Violate(w, oracle, "power|"+oracle, fmt.Sprintf("%s (accepted %s)", detail, ev.Label))
	}
	if w.SnapSeen == nil {
		w.SnapSeen = map[string]snapSeen{}
	}
	msgs := ev.Msgs(before)
	if len(msgs) != 1 {
		// multi-message txs change stake between messages; the reference is taken for single-message txs
		for _, m := range msgs {
			if _, ok := m.(*oracletypes.MsgSubmitValue); ok {
				return
			}
		}
	}
	for _, m := range msgs {
		switch x := m.(type) {
		case *oracletypes.MsgSubmitValue:
			r := sdk.MustAccAddressFromBech32(x.Creator)
			rep, err := before.App.ReporterKeeper.Reporters.Get(before.Ctx, r)
			if err != nil {
				fail("report-by-non-reporter", "report accepted from an address that is not a reporter")
				continue
			}
			if rep.Jailed {
				fail("report-while-jailed", "report accepted from a jailed reporter")
			}
			total, origins := refReporterStake(before, r)
			qid := QID(x.QueryData)
			var got *oracletypes.MicroReport
			for _, mr := range w.ReportsBy(r) {
				if bytes.Equal(mr.QueryId, qid) && mr.BlockNumber == uint64(w.Height()) {
					mr := mr
					got = &mr
				}
			}
			if got == nil {
				fail("report-not-stored", "accepted report not found in the store")
				continue
			}
			e.RC.Count("reports_checked", 1)
			wantPower := total.QuoRaw(TRB).Uint64()
			if got.Power != wantPower {
				fail("report-power", fmt.Sprintf("report carries power %d, bonded stake of active selectors is %s (power %d)", got.Power, total, wantPower))
			}
			snap, err := w.App.ReporterKeeper.Report.Get(w.Ctx, collections.Join(qid, collections.Join(r.Bytes(), uint64(w.Height()))))
			if err != nil {
				fail("snapshot-missing", "no stake snapshot stored for the accepted report")
				continue
			}
			var gotO []originRef
			for _, o := range snap.TokenOrigins {
				gotO = append(gotO, originRef{sdk.AccAddress(o.DelegatorAddress).String(), sdk.ValAddress(o.ValidatorAddress).String(), o.Amount})
			}
			if originKey(gotO) != originKey(origins) || !snap.Total.Equal(total) {
				fail("snapshot-origins", fmt.Sprintf("stored stake snapshot total=%s origins=[%s]; recomputed total=%s origins=[%s]", snap.Total, originKey(gotO), total, originKey(origins)))
			}
			e.RC.Distinct("report_powers", fmt.Sprint(got.Power))
			// the same selector must not back two different reporters within the unbonding period
			ub, _ := w.App.StakingKeeper.UnbondingTime(w.Ctx)
			for _, o := range origins {
				if prev, ok := w.SnapSeen[o.del]; ok && prev.reporter != r.String() && w.Time().Sub(prev.at) < ub {
					fail("stake-counted-for-two-reporters", fmt.Sprintf("selector %s backed reporter %s at %s and reporter %s at %s (unbonding period %s)", short(o.del), short(prev.reporter), prev.at, short(r.String()), w.Time(), ub))
				}
			}
			ns := map[string]snapSeen{}
			for k, v := range w.SnapSeen {
				ns[k] = v
			}
			for _, o := range origins {
				ns[o.del] = snapSeen{r.String(), w.Time()}
			}
			w.SnapSeen = ns
		case *reportertypes.MsgSelectReporter, *reportertypes.MsgSwitchReporter:
			if len(msgs) != 1 {
				continue // the reference state is taken before the whole tx
			}
			var selA, repA string
			if s, ok := x.(*reportertypes.MsgSelectReporter); ok {
				selA, repA = s.SelectorAddress, s.ReporterAddress
			} else {
				s := x.(*reportertypes.MsgSwitchReporter)
				selA, repA = s.SelectorAddress, s.ReporterAddress
			}
			ra := sdk.MustAccAddressFromBech32(repA)
			p, _ := w.App.ReporterKeeper.Params.Get(w.Ctx)
			n, _ := w.App.ReporterKeeper.GetNumOfSelectors(w.Ctx, ra)
			if uint64(n) > p.MaxSelectors {
				fail("selector-cap", fmt.Sprintf("reporter has %d selectors after the join, cap is %d", n, p.MaxSelectors))
			}
			rp, err := before.App.ReporterKeeper.Reporters.Get(before.Ctx, ra)
			if err == nil {
				sa := sdk.MustAccAddressFromBech32(selA)
				bonded := math.ZeroInt()
				dels, _ := before.App.StakingKeeper.GetDelegatorDelegations(before.Ctx, sa, 1000)
				for _, d := range dels {
					va, _ := sdk.ValAddressFromBech32(d.ValidatorAddress)
					if v, err := before.App.StakingKeeper.GetValidator(before.Ctx, va); err == nil && v.IsBonded() {
						bonded = bonded.Add(v.TokensFromShares(d.Shares).TruncateInt())
					}
				}
				if bonded.LT(rp.MinTokensRequired) {
					fail("join-below-minimum", fmt.Sprintf("selector joined with %s bonded, reporter requires %s", bonded, rp.MinTokensRequired))
				}
			}
			e.RC.Count("joins_checked", 1)
		case *reportertypes.MsgUnjailReporter:
			ra := sdk.MustAccAddressFromBech32(x.ReporterAddress)
			if rp, err := before.App.ReporterKeeper.Reporters.Get(before.Ctx, ra); err == nil && before.Time().Before(rp.JailedUntil) {
				fail("unjail-early", fmt.Sprintf("reporter released at %s before its jail time %s", before.Time(), rp.JailedUntil))
			}
		}
	}
}

type snapSeen struct {
	reporter string
	at       time.Time
}

// ---------------------------------------------------------------------------
// C07: reports enter only an open round; each round aggregates exactly once
// ---------------------------------------------------------------------------

type RoundMonitor struct{}

type roundPre struct {
	queries []QueryKV
	reports []oracletypes.MicroReport
	aggs    []AggKV
	idx     uint64
	cycle   [][]byte
	oracle  math.Int
	escrow  math.Int
}

func (RoundMonitor) Pre(w *World) interface{} {
	p := &roundPre{queries: w.Queries(), reports: w.Reports(), aggs: w.Aggregates(), oracle: w.ModBal("oracle"), escrow: w.ModBal(reportertypes.TipsEscrowPool)}
	p.idx, _ = w.App.OracleKeeper.CyclelistSequencer.Peek(w.Ctx)
	p.cycle, _ = w.App.OracleKeeper.GetCyclelist(w.Ctx)
	return p
}

func latestMeta(qs []QueryKV, qid []byte) *oracletypes.QueryMeta {
	var best *oracletypes.QueryMeta
	for i := range qs {
		if bytes.Equal(qs[i].QueryId, qid) && (best == nil || qs[i].Meta.Id > best.Id) {
			best = &qs[i].Meta
		}
	}
	return best
}

func (RoundMonitor) Post(e *Explorer, before, w *World, pre interface{}, ev *Event, out Outcome) {
	if out.Kind == "tx-rej" || out.Kind == "halt" {
		return
	}
	p := pre.(*roundPre)
	fail := func(oracle, detail string) {
		e.Violate(w, oracle, "round|"+oracle, fmt.Sprintf("%s (after %s)", detail, ev.Label))
	}
	h := uint64(before.Height())
	// a window that is opened or re-opened (first report, tip on an expired round, rotation onto a tipped round) runs for
	// the round's own registered number of blocks from the height at which that happened
	{
		oldExp := map[string]uint64{}
		for _, q := range p.queries {
			oldExp[fmt.Sprintf("%x/%d", q.QueryId, q.Meta.Id)] = q.Meta.Expiration
		}
		for _, q := range w.Queries() {
			k := fmt.Sprintf("%x/%d", q.QueryId, q.Meta.Id)
			if oe, had := oldExp[k]; had && oe == q.Meta.Expiration {
				continue
			}
			e.RC.Count("windows_opened", 1)
			if want := h + q.Meta.RegistrySpecBlockWindow; q.Meta.Expiration != want {
				fail("window-length", fmt.Sprintf("round %d of %x.. (%s, window %d) was (re)opened at height %d with expiry %d, its own window ends at %d",
					q.Meta.Id, q.QueryId[:4], q.Meta.QueryType, q.Meta.RegistrySpecBlockWindow, h, q.Meta.Expiration, want))
			}
		}
	}
	if out.Kind == "tx-ok" && ev.Msgs != nil {
		msgs := ev.Msgs(before)
		for _, m := range msgs {
			x, ok := m.(*oracletypes.MsgSubmitValue)
			if !ok || len(msgs) != 1 {
				continue
			}
			e.RC.Count("accepted_reports", 1)
			qid := QID(x.QueryData)
			r := sdk.MustAccAddressFromBech32(x.Creator)
			isBridge, toLayer := bridgeQueryKind(x.QueryData)
			if isBridge && !toLayer {
				fail("report-on-withdrawal-query", "a report for a bridge-withdrawal query was accepted")
			}
			deposit := isBridge && toLayer
			meta := latestMeta(p.queries, qid)
			if !deposit {
				switch {
				case meta == nil:
					fail("report-without-round", "report accepted although the query has no open round (no tip, not scheduled)")
				case meta.Amount.IsZero() && !meta.CycleList:
					fail("report-untipped-unscheduled", "report accepted although the query carries no tip and is not the scheduled cycle-list query")
				case meta.Expiration < h:
					fail("report-after-window", fmt.Sprintf("report accepted at height %d, the window closed at %d", h, meta.Expiration))
				}
			}
			if rp, err := before.App.ReporterKeeper.Reporters.Get(before.Ctx, r); err != nil || rp.Jailed {
				fail("report-jailed-or-unknown", "report accepted from a jailed or unregistered reporter")
			}
			stake, _ := refReporterStake(before, r)
			if op, err := before.App.OracleKeeper.Params.Get(before.Ctx); err == nil && stake.LT(op.MinStakeAmount) {
				fail("report-below-min-stake", fmt.Sprintf("report accepted with stake %s below the minimum %s", stake, op.MinStakeAmount))
			}
			// a later report of the same reporter in the same round replaces the earlier one
			n := 0
			var last oracletypes.MicroReport
			nowMeta := latestMeta(w.Queries(), qid)
			_ = w.App.OracleKeeper.Reports.Walk(w.Ctx, nil, func(k collections.Triple[[]byte, []byte, uint64], v oracletypes.MicroReport) (bool, error) {
				if bytes.Equal(k.K1(), qid) && bytes.Equal(k.K2(), r.Bytes()) && nowMeta != nil && k.K3() == nowMeta.Id {
					n++
					last = v
				}
				return false, nil
			})
			if n != 1 {
				fail("report-not-unique-in-round", fmt.Sprintf("%d stored reports of the reporter in the round after the accepted report", n))
			} else if last.Value != x.Value {
				fail("report-not-replaced", fmt.Sprintf("round keeps value %s, the accepted (later) report carried %s", short(last.Value), short(x.Value)))
			}
		}
		return
	}
	if out.Kind != "block" {
		return
	}
	// --- EndBlock of height h: rounds with reports whose window closed aggregate exactly once and disappear
	hasReports := map[uint64]int{}
	_ = before.App.OracleKeeper.Reports.Walk(before.Ctx, nil, func(k collections.Triple[[]byte, []byte, uint64], _ oracletypes.MicroReport) (bool, error) {
		hasReports[k.K3()]++
		return false, nil
	})
	due := map[uint64]QueryKV{}
	for _, q := range p.queries {
		if q.Meta.HasRevealedReports && q.Meta.Expiration <= h {
			due[q.Meta.Id] = q
		}
	}
	oldKeys := map[string]bool{}
	for _, a := range p.aggs {
		oldKeys[fmt.Sprintf("%x/%d", a.QueryId, a.Ts)] = true
	}
	fresh := map[uint64]int{}
	nowAggs := w.Aggregates()
	for _, a := range nowAggs {
		if oldKeys[fmt.Sprintf("%x/%d", a.QueryId, a.Ts)] {
			continue
		}
		fresh[a.Agg.MetaId]++
		q, ok := due[a.Agg.MetaId]
		if !ok {
			fail("aggregate-without-closed-round", fmt.Sprintf("an aggregate (meta id %d) was produced for a round that was not due", a.Agg.MetaId))
			continue
		}
		if !bytes.Equal(q.QueryId, a.QueryId) {
			fail("aggregate-wrong-query", "aggregate stored under a different query id than its round")
		}
		if len(a.Agg.Reporters) != hasReports[a.Agg.MetaId] {
			fail("aggregate-report-count", fmt.Sprintf("aggregate lists %d reporters, the round had %d reports", len(a.Agg.Reporters), hasReports[a.Agg.MetaId]))
		}
		e.RC.Count("round_aggregates", 1)
	}
	stillThere := map[uint64]bool{}
	for _, q := range w.Queries() {
		stillThere[q.Meta.Id] = true
	}
	paid := math.ZeroInt()
	for id, q := range due {
		if fresh[id] != 1 {
			// two rounds of one query closing in the same block share the (query, block time) key
			fail("round-aggregates-not-once", fmt.Sprintf("round %d of query %x.. with %d reports closed at height %d and produced %d aggregates", id, q.QueryId[:4], hasReports[id], h, fresh[id]))
		}
		if stillThere[id] {
			fail("round-not-removed", fmt.Sprintf("round %d aggregated but still in the query store", id))
		}
		paid = paid.Add(q.Meta.Amount)
	}
	for _, q := range p.queries {
		if _, isDue := due[q.Meta.Id]; isDue {
			continue
		}
		// rounds that were not due keep their tip (unreported tips stay with the query)
		if !q.Meta.Amount.IsZero() {
			found := false
			for _, nq := range w.Queries() {
				if nq.Meta.Id == q.Meta.Id {
					found = true
					if !nq.Meta.Amount.Equal(q.Meta.Amount) {
						fail("tip-changed-without-aggregate", fmt.Sprintf("tip of round %d changed %s -> %s without an aggregate", q.Meta.Id, q.Meta.Amount, nq.Meta.Amount))
					}
				}
			}
			if !found {
				fail("tipped-round-dropped", fmt.Sprintf("round %d carrying tip %s disappeared without an aggregate", q.Meta.Id, q.Meta.Amount))
			}
		}
	}
	if d := p.oracle.Sub(w.ModBal("oracle")); !d.Equal(paid) {
		fail("tips-paid", fmt.Sprintf("oracle account paid out %s at this block, tips of the aggregated rounds sum to %s", d, paid))
	}
	// --- cycle list rotation
	idxNow, _ := w.App.OracleKeeper.CyclelistSequencer.Peek(w.Ctx)
	n := uint64(len(p.cycle))
	if n > 0 && p.idx < n {
		var remaining []QueryKV
		for _, q := range p.queries {
			if _, isDue := due[q.Meta.Id]; !isDue {
				remaining = append(remaining, q)
			}
		}
		cur := latestMeta(remaining, QID(p.cycle[p.idx]))
		open := cur != nil && cur.Expiration > h
		if idxNow != p.idx {
			e.RC.Count("cycle_rotations", 1)
			if open {
				fail("rotated-with-open-window", fmt.Sprintf("cycle list moved %d -> %d although the current query's window is open until %d (height %d)", p.idx, idxNow, cur.Expiration, h))
			}
			if want := (p.idx + 1) % n; idxNow != want {
				fail("rotation-order", fmt.Sprintf("cycle list moved %d -> %d, next in order is %d of %d", p.idx, idxNow, want, n))
			}
		} else if !open && n > 1 {
			fail("not-rotated", fmt.Sprintf("current cycle query has no open window at height %d but the list stayed at %d", h, p.idx))
		}
	}
}

// ---------------------------------------------------------------------------
// C09: each reward is split exactly, non-negatively, proportionally
// ---------------------------------------------------------------------------

type RewardMonitor struct{}

type rewardPre struct {
	queries []QueryKV
	aggs    []AggKV
	tips    map[string]math.LegacyDec
	tbr     math.Int
	cyc     map[uint64]bool // meta id -> first report flagged cyclelist
}

func (RewardMonitor) Pre(w *World) interface{} {
	p := &rewardPre{queries: w.Queries(), aggs: w.Aggregates(), tips: w.SelectorTips(), tbr: w.ModBal("time_based_rewards"), cyc: map[uint64]bool{}}
	seen := map[uint64]bool{}
	_ = w.App.OracleKeeper.Reports.Walk(w.Ctx, nil, func(k collections.Triple[[]byte, []byte, uint64], v oracletypes.MicroReport) (bool, error) {
		if !seen[k.K3()] { // store order = the order aggregation reads them; its first report decides
			seen[k.K3()] = true
			p.cyc[k.K3()] = v.Cyclelist
		}
		return false, nil
	})
	return p
}

func ratDec(d math.LegacyDec) *big.Rat {
	return new(big.Rat).SetFrac(d.BigInt(), new(big.Int).Exp(big.NewInt(10), big.NewInt(18), nil))
}

func (RewardMonitor) Post(e *Explorer, before, w *World, pre interface{}, ev *Event, out Outcome) {
	if out.Kind != "block" {
		return
	}
	p := pre.(*rewardPre)
	fail := func(oracle, detail string) {
		e.Violate(w, oracle, "reward|"+oracle, fmt.Sprintf("%s (EndBlock of height %d)", detail, before.Height()))
	}
	oldKeys := map[string]bool{}
	for _, a := range p.aggs {
		oldKeys[fmt.Sprintf("%x/%d", a.QueryId, a.Ts)] = true
	}
	metaAmt := map[uint64]math.Int{}
	for _, q := range p.queries {
		metaAmt[q.Meta.Id] = q.Meta.Amount
	}
	expect := map[string]*big.Rat{} // selector -> expected credit
	terms := 0
	add := func(sel string, r *big.Rat) {
		if expect[sel] == nil {
			expect[sel] = new(big.Rat)
		}
		expect[sel].Add(expect[sel], r)
		terms++
	}
	// split one reporter's part for one aggregate
	negRate := false
	split := func(a AggKV, reporter string, part *big.Rat, blockNumber uint64) {
		ra := sdk.MustAccAddressFromBech32(reporter)
		rp, err := before.App.ReporterKeeper.Reporters.Get(before.Ctx, ra)
		if err != nil {
			return
		}
		rate := ratDec(rp.CommissionRate)
		if rate.Sign() < 0 || rate.Cmp(big.NewRat(1, 1)) > 0 {
			negRate = true
		}
		commission := new(big.Rat).Mul(part, rate)
		net := new(big.Rat).Sub(part, commission)
		add(ra.String(), commission)
		snap, err := before.App.ReporterKeeper.Report.Get(before.Ctx, collections.Join(a.QueryId, collections.Join(ra.Bytes(), blockNumber)))
		if err != nil || snap.Total.IsZero() {
			return
		}
		for _, o := range snap.TokenOrigins {
			add(sdk.AccAddress(o.DelegatorAddress).String(), new(big.Rat).Mul(net, new(big.Rat).SetFrac(o.Amount.BigInt(), snap.Total.BigInt())))
		}
	}
	total := new(big.Rat)
	var cycAggs []AggKV
	for _, a := range w.Aggregates() {
		if oldKeys[fmt.Sprintf("%x/%d", a.QueryId, a.Ts)] || len(a.Agg.Reporters) == 0 {
			continue
		}
		amt, ok := metaAmt[a.Agg.MetaId]
		if ok && amt.IsPositive() {
			sum := new(big.Int)
			for _, r := range a.Agg.Reporters {
				sum.Add(sum, new(big.Int).SetUint64(r.Power))
			}
			for _, r := range a.Agg.Reporters {
				split(a, r.Reporter, new(big.Rat).Mul(new(big.Rat).SetInt(amt.BigInt()), new(big.Rat).SetFrac(new(big.Int).SetUint64(r.Power), sum)), r.BlockNumber)
			}
			total.Add(total, new(big.Rat).SetInt(amt.BigInt()))
			e.RC.Count("tip_rewards_checked", 1)
		}
		if p.cyc[a.Agg.MetaId] {
			cycAggs = append(cycAggs, a)
		}
	}
	multi := false
	if len(cycAggs) > 0 && p.tbr.IsPositive() {
		sum := new(big.Int)
		seenRep := map[string]int{}
		for _, a := range cycAggs {
			for _, r := range a.Agg.Reporters {
				sum.Add(sum, new(big.Int).SetUint64(r.Power))
				seenRep[r.Reporter]++
				if seenRep[r.Reporter] > 1 {
					multi = true
				}
			}
		}
		for _, a := range cycAggs {
			for _, r := range a.Agg.Reporters {
				split(a, r.Reporter, new(big.Rat).Mul(new(big.Rat).SetInt(p.tbr.BigInt()), new(big.Rat).SetFrac(new(big.Int).SetUint64(r.Power), sum)), r.BlockNumber)
			}
		}
		total.Add(total, new(big.Rat).SetInt(p.tbr.BigInt()))
		e.RC.Count("tbr_rewards_checked", 1)
		if rem := w.LB.TBRAfterEnd; !rem.IsZero() {
			fail("tbr-not-used-up", fmt.Sprintf("time-based reward pool still holds %s after paying cycle-list aggregates", rem))
		}
	} else if len(cycAggs) == 0 {
		if rem := w.LB.TBRAfterEnd; !rem.Equal(p.tbr) {
			fail("tbr-paid-without-cycle-aggregate", fmt.Sprintf("time-based reward pool changed %s -> %s in a block without cycle-list/deposit aggregates", p.tbr, rem))
		}
	}
	if total.Sign() == 0 {
		return
	}
	now := w.SelectorTips()
	// credits are 18-decimal numbers and the implementation forms each share as (power ratio rounded to 18 decimals) x reward:
	// one unit in the last place of the ratio scales with the reward, so shares are compared up to (2R + terms) x 1e-18
	tolN := new(big.Int).Add(new(big.Int).Mul(big.NewInt(2), new(big.Int).Add(total.Num(), big.NewInt(0))), big.NewInt(int64(terms+2)))
	if !total.IsInt() {
		tolN.Quo(tolN, total.Denom())
	}
	tol := new(big.Rat).SetFrac(tolN, new(big.Int).Exp(big.NewInt(10), big.NewInt(18), nil))
	sumTol := new(big.Rat).SetFrac(big.NewInt(int64(terms+2)), new(big.Int).Exp(big.NewInt(10), big.NewInt(18), nil))
	gotSum := new(big.Rat)
	cls := ""
	if negRate {
		cls = "|rate-outside-0-1"
	}
	if multi {
		cls += "|reporter-in-several-aggregates"
	}
	keys := map[string]bool{}
	for k := range now {
		keys[k] = true
	}
	for k := range expect {
		keys[k] = true
	}
	for k := range keys {
		o, n := math.LegacyZeroDec(), math.LegacyZeroDec()
		if v, ok := p.tips[k]; ok {
			o = v
		}
		if v, ok := now[k]; ok {
			n = v
		}
		d := ratDec(n.Sub(o))
		gotSum.Add(gotSum, d)
		if d.Sign() < 0 {
			fail("negative-credit"+cls, fmt.Sprintf("selector %s was credited %s", short(k), d.FloatString(6)))
		}
		want := expect[k]
		if want == nil {
			want = new(big.Rat)
		}
		diff := new(big.Rat).Sub(d, want)
		if diff.Abs(diff).Cmp(tol) > 0 {
			fail("credit-not-proportional"+cls, fmt.Sprintf("selector %s credited %s, proportional share is %s", short(k), d.FloatString(18), want.FloatString(18)))
		}
	}
	sd := new(big.Rat).Sub(gotSum, total)
	if sd.Abs(sd).Cmp(sumTol) > 0 {
		fail("credits-do-not-sum-to-reward"+cls, fmt.Sprintf("credits sum to %s, rewards paid are %s", gotSum.FloatString(18), total.FloatString(18)))
	}
}
