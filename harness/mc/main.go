//go:build verif

package mc

func Main(args []string) int { return 2 }
