//go:build verif

package mc

import (
	"fmt"
	"math/big"
	"sort"
	"strings"
	"time"

	"github.com/tellor-io/layer/zzverif/zzseam"
	oracletypes "github.com/tellor-io/layer/x/oracle/types"
)

func init() {
	Register("C06", &CheckInfo{
		Fn: checkC06, Level: "exploration",
		Rule: "bounded-exhaustive enumeration of report lists: every ordered tuple of n<=4 (quick) / n<=5 full + n=6 reduced (thorough) reporters over values {..01,..02,..0a,..0A,66-hex over-long} x powers {1,2,3,5,1e7,2^62 (median) | 1,2,3,5,1000 (mode)} with total < 2^63, i.e. all multisets in all arrival orders; the real WeightedMedian/WeightedMode are called and compared with the definition (exact integer arithmetic); for WeightedMode every key order of its frequency map is additionally forced through the map-order seam; a case is non-trivial when it has >=2 distinct values; distinct = distinct (multiset, function) pairs",
		Assume:      []string{"values are compared numerically for median and as strings for mode (the implementation's notion of identity)", "mode powers are capped at 1e7 in the alphabet because the implementation loops `power` times"},
		QuickBudget: 10 * time.Minute, ThoroughBudget: 15 * time.Minute,
	})
}

type repIn struct {
	val   string
	power uint64
}

func hexNum(v string) *big.Int {
	n, ok := new(big.Int).SetString(strings.TrimPrefix(strings.TrimPrefix(v, "0x"), "0X"), 16)
	if !ok {
		return nil
	}
	return n
}

// AggValueMonitor: every aggregate the chain itself produces is checked against the statement on the reports it lists,
// with the method the query's reports were registered with (the enumeration below only calls the two aggregators directly).
type AggValueMonitor struct{}

func (AggValueMonitor) Pre(w *World) interface{} {
	seen := map[string]bool{}
	for _, a := range w.Aggregates() {
		seen[fmt.Sprintf("%x/%d", a.QueryId, a.Ts)] = true
	}
	return seen
}

func (AggValueMonitor) Post(e *Explorer, before, w *World, pre interface{}, ev *Event, out Outcome) {
	if out.Kind != "block" {
		return
	}
	seen := pre.(map[string]bool)
	var reports []oracletypes.MicroReport
	for _, a := range w.Aggregates() {
		if seen[fmt.Sprintf("%x/%d", a.QueryId, a.Ts)] || len(a.Agg.Reporters) == 0 {
			continue
		}
		if reports == nil {
			reports = w.Reports()
		}
		fail := func(oracle, detail string) {
			e.Violate(w, oracle, "agg|chain|"+oracle, fmt.Sprintf("aggregate %x../%d: %s (after %s)", a.QueryId[:4], a.Ts, detail, ev.Label))
		}
		type rp struct {
			val    string
			pow    uint64
			who    string
			method string
		}
		var rs []rp
		total := uint64(0)
		for _, ar := range a.Agg.Reporters {
			found := false
			for _, mr := range reports {
				if mr.Reporter == ar.Reporter && string(mr.QueryId) == string(a.QueryId) && mr.BlockNumber == ar.BlockNumber {
					rs = append(rs, rp{mr.Value, mr.Power, mr.Reporter, mr.AggregateMethod})
					total += mr.Power
					found = true
					break
				}
			}
			if !found {
				fail("listed-report-missing", fmt.Sprintf("lists a report of %s at height %d that is not stored", short(ar.Reporter), ar.BlockNumber))
			}
		}
		if len(rs) == 0 {
			continue
		}
		mixed := false
		for _, r := range rs {
			mixed = mixed || r.method != rs[0].method
		}
		if mixed {
			// governance changed the query type's aggregation method while the round was open: the statement does not
			// say which method such a round has
			e.RC.Count("chain_aggregates_with_mixed_methods_skipped", 1)
			continue
		}
		e.RC.Count("chain_aggregates_checked", 1)
		e.RC.Distinct("chain_aggregate_methods", rs[0].method)
		if a.Agg.ReporterPower != total {
			fail("total-power", fmt.Sprintf("records power %d, its reports carry %d", a.Agg.ReporterPower, total))
		}
		named := false
		for _, r := range rs {
			if r.who == a.Agg.AggregateReporter && r.val == a.Agg.AggregateValue {
				named = true
			}
		}
		if !named {
			fail("aggregate-reporter", "the named reporter did not report the chosen value")
		}
		switch rs[0].method {
		case "weighted-median":
			chosen := hexNum(a.Agg.AggregateValue)
			if chosen == nil {
				continue
			}
			below, upto := new(big.Int), new(big.Int)
			for _, r := range rs {
				if v := hexNum(r.val); v != nil {
					if v.Cmp(chosen) < 0 {
						below.Add(below, new(big.Int).SetUint64(r.pow))
					}
					if v.Cmp(chosen) <= 0 {
						upto.Add(upto, new(big.Int).SetUint64(r.pow))
					}
				}
			}
			tot := new(big.Int).SetUint64(total)
			if new(big.Int).Lsh(below, 1).Cmp(tot) > 0 || new(big.Int).Lsh(upto, 1).Cmp(tot) < 0 {
				fail("not-the-weighted-median", fmt.Sprintf("value %s: power strictly below=%s, up to=%s, total=%s", short(a.Agg.AggregateValue), below, upto, tot))
			}
		case "weighted-mode":
			byVal := map[string]uint64{}
			max := uint64(0)
			for _, r := range rs {
				byVal[r.val] += r.pow
				if byVal[r.val] > max {
					max = byVal[r.val]
				}
			}
			if byVal[a.Agg.AggregateValue] != max {
				fail("not-a-weighted-mode", fmt.Sprintf("value %s is backed by power %d, the maximum is %d", short(a.Agg.AggregateValue), byVal[a.Agg.AggregateValue], max))
			}
		}
	}
}

func checkC06(rc *RunCtx) {
	// stateful part: the aggregates the chain produces along the oracle family of skeletons (+ deviations); it runs after
	// the enumeration because it is the part a deadline may cut short
	stateful := func() {
		runSkeletons(rc, []Monitor{AggValueMonitor{}}, kOf(rc), "round", "tip-no-report", "governance", "dispute-sibling", "mode-after-median", "deposit-closing")
	}
	if rc.Replay != nil && isSkeleton(rc.Replay.Scenario) {
		stateful()
		return
	}
	defer func() {
		if rc.Replay == nil {
			stateful()
		}
	}()
	w := NewWorld(Config{})
	k := w.App.OracleKeeper
	ctx := w.Ctx
	addrs := make([]string, 6)
	for i := range addrs {
		addrs[i] = mkUser(fmt.Sprintf("rep%d", i)).Acc.String()
	}
	qid := QID(SpotQuery("eth", "usd"))
	medVals := []string{U256(1), U256(2), U256(10), strings.ToUpper(U256(10)), U256(7) + "ff"}
	medPow := []uint64{1, 2, 3, 5, 10_000_000, 1 << 62}
	modeVals := []string{U256(1), U256(2), U256(10), U256(7) + "ff"}
	modePow := []uint64{1, 2, 3, 5, 1000}
	maxN := 4
	if !rc.Quick() {
		maxN = 5
	}

	mk := func(ins []repIn) []oracletypes.MicroReport {
		out := make([]oracletypes.MicroReport, len(ins))
		for i, in := range ins {
			out[i] = oracletypes.MicroReport{Reporter: addrs[i], Power: in.power, QueryType: "SpotPrice", QueryId: qid, Value: in.val,
				AggregateMethod: "weighted-median", BlockNumber: uint64(10 + i), Timestamp: GenesisTime}
		}
		return out
	}
	multikey := func(ins []repIn) string {
		l := make([]string, len(ins))
		for i, in := range ins {
			l[i] = fmt.Sprintf("%s/%d", in.val, in.power)
		}
		sort.Strings(l)
		return strings.Join(l, ",")
	}
	seenMed := map[string]string{}  // multiset -> numeric aggregate
	seenMode := map[string]string{} // multiset -> aggregate value string
	viol := func(fn, oracle, detail string, ins []repIn) {
		rc.Violate(Violation{Oracle: oracle, Sig: "agg|" + fn + "|" + oracle, Detail: fmt.Sprintf("%s; reports(value/power in arrival order)=%v", detail, ins), Scenario: fn,
			Trace: []string{fmt.Sprintf("%v", ins)}})
	}
	common := func(fn string, ins []repIn, agg *oracletypes.Aggregate) {
		var total uint64
		for _, in := range ins {
			total += in.power
		}
		if agg.ReporterPower != total {
			viol(fn, "reporter-power", fmt.Sprintf("aggregate records power %d, reports sum to %d", agg.ReporterPower, total), ins)
		}
		if len(agg.Reporters) != len(ins) {
			viol(fn, "reporters-list", fmt.Sprintf("aggregate lists %d reporters for %d reports", len(agg.Reporters), len(ins)), ins)
		} else {
			seen := map[string]bool{}
			for _, r := range agg.Reporters {
				idx := -1
				for i := range ins {
					if addrs[i] == r.Reporter {
						idx = i
					}
				}
				if idx < 0 || seen[r.Reporter] || r.Power != ins[idx].power {
					viol(fn, "reporters-list", "aggregate's reporter list is not the reports, each exactly once with its power", ins)
				}
				seen[r.Reporter] = true
			}
		}
		ok := false
		for i := range ins {
			if addrs[i] == agg.AggregateReporter && ins[i].val == agg.AggregateValue {
				ok = true
			}
		}
		if !ok {
			viol(fn, "aggregate-reporter", fmt.Sprintf("aggregate names reporter %s who did not report the chosen value %s", short(agg.AggregateReporter), agg.AggregateValue), ins)
		}
	}

	checkMedian := func(ins []repIn) {
		var tot big.Int
		for _, in := range ins {
			tot.Add(&tot, new(big.Int).SetUint64(in.power))
		}
		if tot.BitLen() > 63 {
			return
		}
		rc.Count("evaluations", 1)
		agg, err := k.WeightedMedian(ctx, mk(ins), 7)
		if err != nil || agg == nil {
			viol("median", "error", fmt.Sprintf("WeightedMedian failed: %v", err), ins)
			return
		}
		common("median", ins, agg)
		v := hexNum(agg.AggregateValue)
		if v == nil {
			viol("median", "not-a-reported-value", "aggregate value unparsable: "+agg.AggregateValue, ins)
			return
		}
		var below, upto big.Int
		for _, in := range ins {
			c := hexNum(in.val).Cmp(v)
			if c < 0 {
				below.Add(&below, new(big.Int).SetUint64(in.power))
			}
			if c <= 0 {
				upto.Add(&upto, new(big.Int).SetUint64(in.power))
			}
		}
		// below <= total/2 <= upto   <=>   2*below <= total <= 2*upto
		b2, u2 := new(big.Int).Lsh(&below, 1), new(big.Int).Lsh(&upto, 1)
		if b2.Cmp(&tot) > 0 || u2.Cmp(&tot) < 0 {
			viol("median", "not-the-weighted-median", fmt.Sprintf("chosen %s: power strictly below=%s, up to=%s, total=%s", agg.AggregateValue, &below, &upto, &tot), ins)
		}
		mkKey := multikey(ins)
		if prev, ok := seenMed[mkKey]; ok {
			if prev != v.String() {
				viol("median", "order-dependent", fmt.Sprintf("same multiset gave %s in another arrival order and %s now", prev, v), ins)
			}
		} else {
			seenMed[mkKey] = v.String()
			distinctVals := map[string]bool{}
			for _, in := range ins {
				distinctVals[hexNum(in.val).String()] = true
			}
			if len(distinctVals) >= 2 {
				rc.Count("distinct_nontrivial", 1)
			}
		}
	}

	checkMode := func(ins []repIn) {
		reports := mk(ins)
		for i := range reports {
			reports[i].AggregateMethod = "weighted-mode"
		}
		weight := map[string]uint64{}
		for _, in := range ins {
			weight[in.val] += in.power
		}
		var maxw uint64
		for _, wv := range weight {
			if wv > maxw {
				maxw = wv
			}
		}
		nkeys := len(weight)
		perms := permutations(nkeys)
		mkKey := multikey(ins)
		for _, perm := range perms {
			perm := perm
			zzseam.Install(func(site string, occ, n int) []int {
				if strings.Contains(site, "weighted_mode.go") && n == len(perm) {
					return perm
				}
				return nil
			})
			rc.Count("evaluations", 1)
			agg, err := k.WeightedMode(ctx, append([]oracletypes.MicroReport(nil), reports...), 7)
			zzseam.Install(nil)
			if err != nil || agg == nil {
				viol("mode", "error", fmt.Sprintf("WeightedMode failed: %v", err), ins)
				return
			}
			common("mode", ins, agg)
			if weight[agg.AggregateValue] != maxw {
				viol("mode", "not-the-weighted-mode", fmt.Sprintf("chosen %s has weight %d, maximum is %d", agg.AggregateValue, weight[agg.AggregateValue], maxw), ins)
			}
			if prev, ok := seenMode[mkKey]; ok {
				if prev != agg.AggregateValue {
					viol("mode", "tie-not-fixed", fmt.Sprintf("same multiset gave %s before and %s now (map order %v / arrival order)", short(prev), short(agg.AggregateValue), perm), ins)
				}
			} else {
				seenMode[mkKey] = agg.AggregateValue
				if nkeys >= 2 {
					rc.Count("distinct_nontrivial", 1)
				}
			}
		}
	}

	var rec func(n int, cur []repIn, vals []string, pows []uint64, f func([]repIn))
	rec = func(n int, cur []repIn, vals []string, pows []uint64, f func([]repIn)) {
		if len(cur) == n {
			f(cur)
			return
		}
		for _, v := range vals {
			for _, p := range pows {
				rec(n, append(cur, repIn{v, p}), vals, pows, f)
			}
		}
	}
	// shard by (n, first reporter's (value,power)); groups of permutations of one multiset can straddle
	// shards, so order-independence is compared inside each worker over all tuples: every worker must see
	// complete multisets. Sharding is therefore by multiset hash instead.
	shard := func(f func([]repIn)) func([]repIn) {
		return func(ins []repIn) {
			if rc.Workers > 1 {
				h := 0
				for _, c := range multikey(ins) {
					h = (h*131 + int(c)) % 1000003
				}
				if h%rc.Workers != rc.Worker {
					return
				}
			}
			if rc.TimeUp() {
				rc.Cap()
				return
			}
			f(append([]repIn(nil), ins...))
		}
	}
	for n := 1; n <= maxN; n++ {
		rec(n, nil, medVals, medPow, shard(checkMedian))
		rec(n, nil, modeVals, modePow, shard(checkMode))
	}
	if !rc.Quick() {
		rec(6, nil, []string{U256(1), U256(2), strings.ToUpper(U256(10))}, []uint64{1, 2, 3, 1 << 60}, shard(checkMedian))
		rec(6, nil, []string{U256(1), U256(2), U256(10)}, []uint64{1, 2, 3}, shard(checkMode))
	}
	rc.Sample(map[string]interface{}{"median_values": medVals, "median_powers": medPow, "mode_values": modeVals, "mode_powers": modePow, "max_n": maxN})
	rc.Sample([]repIn{{U256(1), 2}, {U256(2), 2}})
}

func (r repIn) String() string { return fmt.Sprintf("%s/%d", short(r.val), r.power) }

func permutations(n int) [][]int {
	if n <= 1 {
		return [][]int{nil}
	}
	var out [][]int
	var rec func(cur []int, used []bool)
	rec = func(cur []int, used []bool) {
		if len(cur) == n {
			out = append(out, append([]int(nil), cur...))
			return
		}
		for i := 0; i < n; i++ {
			if !used[i] {
				used[i] = true
				rec(append(cur, i), used)
				used[i] = false
			}
		}
	}
	rec(nil, make([]bool, n))
	return out
}
