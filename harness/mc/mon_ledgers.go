//go:build verif

package mc

import (
	"bytes"
	"fmt"
	"sort"
	"strings"
	"time"

	disputetypes "github.com/tellor-io/layer/x/dispute/types"
	bridgetypes "github.com/tellor-io/layer/x/bridge/types"
	oracletypes "github.com/tellor-io/layer/x/oracle/types"
	reportertypes "github.com/tellor-io/layer/x/reporter/types"

	"cosmossdk.io/collections"
	"cosmossdk.io/math"

	sdk "github.com/cosmos/cosmos-sdk/types"
	stakingkeeper "github.com/cosmos/cosmos-sdk/x/staking/keeper"
	stakingtypes "github.com/cosmos/cosmos-sdk/x/staking/types"
)

// ---------------------------------------------------------------------------
// C05: staking ledger backed by the pools
// ---------------------------------------------------------------------------

type PoolMonitor struct{}

type poolPre struct {
	excessB, excessN math.Int
	origins          int64
	ledger, disputed math.Int // validators' tokens + unbonding entries; sum of the per-dispute records of stake taken
}

// stakeLedger is what validators and unbonding entries record in total.
func stakeLedger(w *World) math.Int {
	sk := w.App.StakingKeeper
	tot := math.ZeroInt()
	vals, _ := sk.GetAllValidators(w.Ctx)
	for _, v := range vals {
		tot = tot.Add(v.Tokens)
	}
	_ = sk.IterateUnbondingDelegations(w.Ctx, func(_ int64, ubd stakingtypes.UnbondingDelegation) bool {
		for _, en := range ubd.Entries {
			tot = tot.Add(en.Balance)
		}
		return false
	})
	return tot
}

func disputedTotal(w *World) (math.Int, int64) {
	tot, n := math.ZeroInt(), int64(0)
	_ = w.App.ReporterKeeper.DisputedDelegationAmounts.Walk(w.Ctx, nil, func(_ []byte, v reportertypes.DelegationsAmounts) (bool, error) {
		tot = tot.Add(v.Total)
		n += int64(len(v.TokenOrigins))
		return false, nil
	})
	return tot, n
}

// poolState returns (bonded pool - bonded ledger, not-bonded pool - not-bonded ledger).
func poolState(w *World) (math.Int, math.Int) {
	sk := w.App.StakingKeeper
	bondedLedger, nbLedger := math.ZeroInt(), math.ZeroInt()
	vals, _ := sk.GetAllValidators(w.Ctx)
	for _, v := range vals {
		if v.IsBonded() {
			bondedLedger = bondedLedger.Add(v.Tokens)
		} else {
			nbLedger = nbLedger.Add(v.Tokens)
		}
	}
	_ = sk.IterateUnbondingDelegations(w.Ctx, func(_ int64, ubd stakingtypes.UnbondingDelegation) bool {
		for _, en := range ubd.Entries {
			nbLedger = nbLedger.Add(en.Balance)
		}
		return false
	})
	return w.ModBal(stakingtypes.BondedPoolName).Sub(bondedLedger), w.ModBal(stakingtypes.NotBondedPoolName).Sub(nbLedger)
}

func countOrigins(w *World) int64 {
	var n int64
	_ = w.App.ReporterKeeper.DisputedDelegationAmounts.Walk(w.Ctx, nil, func(_ []byte, v reportertypes.DelegationsAmounts) (bool, error) {
		n += int64(len(v.TokenOrigins))
		return false, nil
	})
	_ = w.App.ReporterKeeper.FeePaidFromStake.Walk(w.Ctx, nil, func(_ []byte, v reportertypes.DelegationsAmounts) (bool, error) {
		n += int64(len(v.TokenOrigins))
		return false, nil
	})
	return n
}

func (PoolMonitor) Pre(w *World) interface{} {
	b, n := poolState(w)
	d, _ := disputedTotal(w)
	return &poolPre{excessB: b, excessN: n, origins: countOrigins(w), ledger: stakeLedger(w), disputed: d}
}

func (PoolMonitor) Post(e *Explorer, before, w *World, pre interface{}, ev *Event, out Outcome) {
	if out.Kind == "tx-rej" || out.Kind == "halt" {
		return
	}
	p := pre.(*poolPre)
	b, n := poolState(w)
	fail := func(oracle, detail string) {
		e.Violate(w, oracle, "pools|"+oracle+"|"+evClass(ev), fmt.Sprintf("%s (after %s)", detail, ev.Label))
	}
	// excess may grow only by one smallest unit per returned entry
	grow := b.Add(n).Sub(p.excessB.Add(p.excessN))
	if !b.IsNegative() && !n.IsNegative() && !p.excessB.IsNegative() && !p.excessN.IsNegative() && grow.GT(math.NewInt(p.origins+1)) {
		fail("pool-excess", fmt.Sprintf("pools grew %s beyond the ledger in one transition (at most %d returned entries)", grow, p.origins))
	}
	// ... and never shrinks: whatever leaves or enters the ledger leaves or enters the pools by the same amount, so a
	// transition that credits validators with more than the pools received is caught even while older dust still covers it
	if grow.IsNegative() {
		fail("pool-excess-shrank", fmt.Sprintf("validators and unbonding entries were credited %s more than the staking pools received in this transition (excess %s -> %s)", grow.Neg(), p.excessB.Add(p.excessN), b.Add(n)))
	}
	// stake taken for a dispute leaves the ledger by exactly the amount the per-dispute record says was taken
	// (transactions that also pay a fee from stake are left out: the fee leaves the same ledger)
	if d, norig := disputedTotal(w); d.GT(p.disputed) && out.Kind == "tx-ok" {
		fromBond := false
		if ev.Msgs != nil {
			for _, m := range ev.Msgs(before) {
				switch x := m.(type) {
				case *disputetypes.MsgProposeDispute:
					fromBond = fromBond || x.PayFromBond
				case *disputetypes.MsgAddFeeToDispute:
					fromBond = fromBond || x.PayFromBond
				}
			}
		}
		if !fromBond {
			e.RC.Count("escrows_compared_with_record", 1)
			taken, recorded := p.ledger.Sub(stakeLedger(w)), d.Sub(p.disputed)
			if diff := taken.Sub(recorded); diff.Abs().GT(math.NewInt(norig)) {
				fail("taken-differs-from-record", fmt.Sprintf("%s left validators and unbonding entries, the dispute's record of stake taken grew by %s", taken, recorded))
			}
		}
	}
	// state predicates are reported at the transition that breaks (or worsens) them
	if b.IsNegative() && (!p.excessB.IsNegative() || b.LT(p.excessB)) {
		fail("bonded-pool-short", fmt.Sprintf("bonded pool holds %s less than bonded validators record", b.Neg()))
	}
	if n.IsNegative() && (!p.excessN.IsNegative() || n.LT(p.excessN)) {
		fail("notbonded-pool-short", fmt.Sprintf("not-bonded pool holds %s less than unbonding validators and unbonding entries record", n.Neg()))
	}
	e.RC.Distinct("pool_excess", b.String()+"/"+n.String())
	sk := w.App.StakingKeeper
	for name, inv := range map[string]sdk.Invariant{
		"nonnegative-power":   stakingkeeper.NonNegativePowerInvariant(sk),
		"positive-delegation": stakingkeeper.PositiveDelegationInvariant(sk),
		"delegator-shares":    stakingkeeper.DelegatorSharesInvariant(sk),
	} {
		if msg, broken := inv(w.Ctx); broken {
			fail("sdk-"+name, msg)
		}
	}
}

// evClass is the event's tag, or "block".
func evClass(ev *Event) string {
	if ev.Tag == "" {
		return "event"
	}
	if ev.Tag == "skeleton" {
		l := ev.Label
		if i := strings.Index(l, "("); i > 0 {
			l = l[:i]
		}
		return "skeleton/" + l
	}
	return ev.Tag
}

// ---------------------------------------------------------------------------
// C04: escrow accounts cover what the chain owes
// ---------------------------------------------------------------------------

type EscrowMonitor struct {
	// Probe: attempt every entitled claim on a throw-away branch after block events.
	Probe bool
}

type escrowPre struct {
	disputeBal, feeSum, stakeSum math.Int
}

func disputeLedger(w *World) (feeSum, stakeSum math.Int) {
	feeSum, stakeSum = math.ZeroInt(), math.ZeroInt()
	_ = w.App.ReporterKeeper.DisputedDelegationAmounts.Walk(w.Ctx, nil, func(_ []byte, v reportertypes.DelegationsAmounts) (bool, error) {
		stakeSum = stakeSum.Add(v.Total)
		return false, nil
	})
	latest := map[string]disputetypes.Dispute{}
	for _, d := range w.Disputes() {
		latest[string(d.HashId)] = d
	}
	for _, d := range latest {
		feeSum = feeSum.Add(d.FeeTotal)
	}
	return
}

func (EscrowMonitor) Pre(w *World) interface{} {
	f, s := disputeLedger(w)
	return &escrowPre{disputeBal: w.ModBal("dispute"), feeSum: f, stakeSum: s}
}

func (m EscrowMonitor) Post(e *Explorer, before, w *World, pre interface{}, ev *Event, out Outcome) {
	if w.FromBondShort.IsNil() {
		w.FromBondShort = math.ZeroInt()
	}
	if out.Kind == "tx-ok" && ev.Msgs != nil {
		// inflow side: a dispute payment must move exactly what the dispute records
		p := pre.(*escrowPre)
		pays, fromBond, payer := false, false, ""
		for _, mm := range ev.Msgs(before) {
			switch x := mm.(type) {
			case *disputetypes.MsgProposeDispute:
				pays, fromBond, payer = true, fromBond || x.PayFromBond, x.Creator
			case *disputetypes.MsgAddFeeToDispute:
				pays, fromBond, payer = true, fromBond || x.PayFromBond, x.Creator
			}
		}
		if pays {
			f, s := disputeLedger(w)
			recorded := f.Sub(p.feeSum).Add(s.Sub(p.stakeSum))
			moved := w.ModBal("dispute").Sub(p.disputeBal)
			short := recorded.Sub(moved)
			e.RC.Count("dispute_payments_checked", 1)
			if !short.IsZero() {
				nsel := int64(0)
				if fromBond {
					set := map[string]bool{}
					addSelectorsOf(before, set, payer)
					nsel = int64(len(set))
				}
				if fromBond && short.IsPositive() && short.LTE(math.NewInt(nsel)) {
					// exact expected deviation of known finding F-frombond-trunc: < 1 loya per selector of the payer
					w.FromBondShort = w.FromBondShort.Add(short)
					e.Violate(w, "dispute-inflow", "escrow|frombond-truncation",
						fmt.Sprintf("fee paid from stake: dispute records %s but only %s reached the dispute account (short %s <= %d selectors)", recorded, moved, short, nsel))
				} else {
					e.Violate(w, "dispute-inflow", "escrow|dispute-inflow|"+evClass(ev),
						fmt.Sprintf("dispute payment: dispute records +%s (fees+escrowed stake) but the dispute account changed by %s", recorded, moved))
				}
			}
		}
	}
	if out.Kind != "block" {
		return
	}
	fail := func(oracle, detail string) {
		e.Violate(w, oracle, "escrow|"+oracle, fmt.Sprintf("%s (at block boundary h=%d)", detail, w.Height()))
	}
	sumTips := math.ZeroInt()
	for _, q := range w.Queries() {
		sumTips = sumTips.Add(q.Meta.Amount)
	}
	if ob := w.ModBal("oracle"); !ob.Equal(sumTips) {
		fail("oracle-account", fmt.Sprintf("oracle account holds %s but unpaid tips on open queries sum to %s", ob, sumTips))
	}
	credits := math.LegacyZeroDec()
	for _, v := range w.SelectorTips() {
		credits = credits.Add(v)
		if v.IsNegative() {
			fail("negative-credit", fmt.Sprintf("a selector has a negative reward credit %s", v))
		}
	}
	// credits are decimals with 18 places and each division rounds (C09 allows 1e-18 per credit);
	// withdrawals pay whole units only, so solvency is required of the whole units and of the sum up to 1e-9
	whole := math.ZeroInt()
	for _, v := range w.SelectorTips() {
		whole = whole.Add(v.TruncateInt())
	}
	if eb := w.ModBal(reportertypes.TipsEscrowPool); eb.LT(whole) || math.LegacyNewDecFromInt(eb).Add(math.LegacyNewDecWithPrec(1, 9)).LT(credits) {
		fail("tips-escrow", fmt.Sprintf("tips escrow pool holds %s but credits sum to %s", eb, credits))
	}
	if bb := w.ModBal("bridge"); !bb.IsZero() {
		fail("bridge-account", fmt.Sprintf("bridge account holds %s", bb))
	}
	// dispute escrow lower bound: escrowed stake + fees of unsettled disputes
	owed := math.ZeroInt()
	latest := map[string]disputetypes.Dispute{}
	for _, d := range w.Disputes() {
		latest[string(d.HashId)] = d
	}
	settled := map[string]bool{}
	for h, d := range latest {
		v, err := w.App.DisputeKeeper.Votes.Get(w.Ctx, d.DisputeId)
		executed := err == nil && v.Executed
		if executed || d.DisputeStatus == disputetypes.Failed {
			settled[h] = true
		} else {
			owed = owed.Add(d.FeeTotal)
		}
	}
	_ = w.App.ReporterKeeper.DisputedDelegationAmounts.Walk(w.Ctx, nil, func(h []byte, v reportertypes.DelegationsAmounts) (bool, error) {
		if !settled[string(h)] {
			owed = owed.Add(v.Total)
		}
		return false, nil
	})
	if db := w.ModBal("dispute").Add(w.FromBondShort); db.LT(owed) {
		fail("dispute-account", fmt.Sprintf("dispute account holds %s but escrowed stake + fees of unsettled disputes sum to %s", db, owed))
	}
	e.RC.Distinct("escrow_balances", fmt.Sprintf("%s/%s/%s", sumTips, credits.TruncateInt(), owed))
	if m.Probe {
		ProbeClaims(e, w, "insufficient")
	}
}

// ProbeClaims attempts, on a throw-away branch, every claim the ledger entitles
// someone to (reward credits >= 1, fee refunds of executed/failed disputes,
// voter rewards), first in store order then in reverse order. A failure whose
// error contains mustNotContain (or any failure when it is "") is a violation.
func ProbeClaims(e *Explorer, w *World, mustNotContain string) {
	type claim struct {
		label string
		msg   sdk.Msg
	}
	var claims []claim
	var sel []string
	tips := w.SelectorTips()
	for a := range tips {
		sel = append(sel, a)
	}
	sort.Strings(sel)
	var bondedVal *Validator
	for _, v := range w.Vals {
		if sv, err := w.App.StakingKeeper.GetValidator(w.Ctx, v.Val); err == nil && sv.IsBonded() {
			bondedVal = v
			break
		}
	}
	if bondedVal != nil {
		for _, a := range sel {
			if tips[a].GTE(math.LegacyOneDec()) {
				acc := sdk.MustAccAddressFromBech32(a)
				claims = append(claims, claim{"WithdrawTip(" + short(a) + ")", MsgWithdrawTip(acc, bondedVal)})
			}
		}
	}
	_ = w.App.DisputeKeeper.DisputeFeePayer.Walk(w.Ctx, nil, func(k collections.Pair[uint64, []byte], p disputetypes.PayerInfo) (bool, error) {
		d, err := w.App.DisputeKeeper.Disputes.Get(w.Ctx, k.K1())
		if err != nil {
			return false, nil
		}
		entitled := d.DisputeStatus == disputetypes.Failed
		if v, err := w.App.DisputeKeeper.Votes.Get(w.Ctx, k.K1()); err == nil && v.Executed {
			switch v.VoteResult {
			case disputetypes.VoteResult_INVALID, disputetypes.VoteResult_NO_QUORUM_MAJORITY_INVALID,
				disputetypes.VoteResult_SUPPORT, disputetypes.VoteResult_NO_QUORUM_MAJORITY_SUPPORT:
				entitled = true
			}
		}
		if entitled {
			payer := sdk.AccAddress(k.K2())
			claims = append(claims, claim{fmt.Sprintf("FeeRefund(%d,%s)", k.K1(), short(payer.String())), MsgFeeRefund(payer, payer, k.K1())})
		}
		return false, nil
	})
	_ = w.App.DisputeKeeper.Voter.Walk(w.Ctx, nil, func(k collections.Pair[uint64, []byte], v disputetypes.Voter) (bool, error) {
		if v.RewardClaimed {
			return false, nil
		}
		if vt, err := w.App.DisputeKeeper.Votes.Get(w.Ctx, k.K1()); err == nil && vt.Executed {
			d, _ := w.App.DisputeKeeper.Disputes.Get(w.Ctx, k.K1())
			if d.DisputeStatus == disputetypes.Resolved {
				voter := sdk.AccAddress(k.K2())
				claims = append(claims, claim{fmt.Sprintf("ClaimReward(%d,%s)", k.K1(), short(voter.String())), MsgClaimReward(voter, k.K1())})
			}
		}
		return false, nil
	})
	if len(claims) == 0 {
		return
	}
	e.RC.Count("claim_probes", int64(len(claims)))
	for pass := 0; pass < 2; pass++ {
		f := w.Fork()
		order := append([]claim(nil), claims...)
		if pass == 1 {
			for i, j := 0, len(order)-1; i < j; i, j = i+1, j-1 {
				order[i], order[j] = order[j], order[i]
			}
		}
		for _, c := range order {
			r := f.Tx(c.msg)
			if r.OK {
				e.RC.Count("claim_probes_ok", 1)
				continue
			}
			e.RC.Distinct("claim_probe_errors", NormErr(r.Err))
			if r.Err == "reward is zero" || strings.Contains(r.Err, "already claimed") {
				continue
			}
			if strings.Contains(r.Err, "insufficient funds") && w.FromBondShort.IsPositive() {
				var have, need int64
				if n, _ := fmt.Sscanf(r.Err, "spendable balance %dloya is smaller than %dloya", &have, &need); n == 2 && need-have <= w.FromBondShort.Int64() {
					e.Violate(w, "entitled-claim-fails", "claim|explained-by-frombond-truncation",
						fmt.Sprintf("claim %s fails for lack of %d loya; fee-from-stake payments moved %s less than recorded", c.label, need-have, w.FromBondShort))
					continue
				}
			}
			if mustNotContain == "" || strings.Contains(r.Err, mustNotContain) {
				cls := c.label
				if i := strings.Index(cls, "("); i > 0 {
					cls = cls[:i]
				}
				e.Violate(w, "entitled-claim-fails", "claim|"+cls+"|"+NormErr(r.Err),
					fmt.Sprintf("claim %s (order pass %d) fails: %s", c.label, pass, r.Err))
			}
		}
	}
}

// ---------------------------------------------------------------------------
// C08: aggregate history append-only
// ---------------------------------------------------------------------------

type AggMonitor struct{}

func (AggMonitor) Pre(w *World) interface{} { return w.Aggregates() }

func (AggMonitor) Post(e *Explorer, before, w *World, pre interface{}, ev *Event, out Outcome) {
	if out.Kind == "tx-rej" || out.Kind == "halt" {
		return
	}
	old := pre.([]AggKV)
	now := w.Aggregates()
	fail := func(oracle, detail string) {
		e.Violate(w, oracle, "aggs|"+oracle+"|"+evClass(ev), fmt.Sprintf("%s (after %s)", detail, ev.Label))
	}
	idx := map[string]AggKV{}
	lastTs := map[string]uint64{}
	lastIdx := map[string]uint64{}
	for _, a := range now {
		idx[fmt.Sprintf("%x/%d", a.QueryId, a.Ts)] = a
	}
	for _, a := range old {
		k := fmt.Sprintf("%x/%d", a.QueryId, a.Ts)
		n, ok := idx[k]
		if !ok {
			fail("removed", "a stored aggregate disappeared: "+k)
			continue
		}
		o2, n2 := a.Agg, n.Agg
		if !o2.Flagged && n2.Flagged {
			e.RC.Count("aggregates_flagged", 1)
			n2.Flagged = false
			// soundness of the flag: some dispute names the report that determined this aggregate
			found := false
			for _, d := range w.Disputes() {
				for _, r := range append([]oracletypes.MicroReport{d.InitialEvidence}, derefReports(d.AdditionalEvidence)...) {
					if r.Reporter == a.Agg.AggregateReporter && bytes.Equal(r.QueryId, a.QueryId) && r.BlockNumber == a.Agg.MicroHeight {
						found = true
					}
				}
			}
			if !found {
				fail("flagged-without-dispute", fmt.Sprintf("aggregate %s became flagged but no dispute names the report that determined it (reporter %s, height %d)", k, short(a.Agg.AggregateReporter), a.Agg.MicroHeight))
			}
		}
		if o2.String() != n2.String() {
			fail("altered", fmt.Sprintf("a stored aggregate was altered: %s\n old=%v\n new=%v", k, o2, n2))
		}
		q := string(a.QueryId)
		if a.Ts > lastTs[q] {
			lastTs[q] = a.Ts
		}
		if a.Agg.Index > lastIdx[q] {
			lastIdx[q] = a.Agg.Index
		}
	}
	oldKeys := map[string]bool{}
	for _, a := range old {
		oldKeys[fmt.Sprintf("%x/%d", a.QueryId, a.Ts)] = true
	}
	var fresh []AggKV
	for _, a := range now {
		if !oldKeys[fmt.Sprintf("%x/%d", a.QueryId, a.Ts)] {
			fresh = append(fresh, a)
		}
	}
	sort.Slice(fresh, func(i, j int) bool {
		if c := bytes.Compare(fresh[i].QueryId, fresh[j].QueryId); c != 0 {
			return c < 0
		}
		return fresh[i].Ts < fresh[j].Ts
	})
	changed := len(fresh) > 0
	for _, a := range old {
		if n, ok := idx[fmt.Sprintf("%x/%d", a.QueryId, a.Ts)]; ok && n.Agg.Flagged != a.Agg.Flagged {
			changed = true
		}
	}
	// completeness of the flag: when a dispute becomes funded, every aggregate determined by the disputed report is flagged
	wasOpen := map[uint64]disputetypes.DisputeStatus{}
	for _, d := range before.Disputes() {
		wasOpen[d.DisputeId] = d.DisputeStatus
	}
	for _, d := range w.Disputes() {
		st, existed := wasOpen[d.DisputeId]
		if d.DisputeStatus != disputetypes.Voting || d.DisputeRound > 1 || (existed && st != disputetypes.Prevote) {
			continue
		}
		r := d.InitialEvidence
		for _, a := range now {
			if bytes.Equal(a.QueryId, r.QueryId) && a.Agg.AggregateReporter == r.Reporter && a.Agg.MicroHeight == r.BlockNumber {
				e.RC.Count("disputed_determining_reports", 1)
				if !a.Agg.Flagged {
					fail("not-flagged-on-dispute", fmt.Sprintf("dispute %d on the report of %s at height %d became funded, but the aggregate %x/%d it determined is not flagged", d.DisputeId, short(r.Reporter), r.BlockNumber, a.QueryId[:4], a.Ts))
				}
			}
		}
	}
	if changed {
		probeAggregateGetters(e, w, now, fail)
	}
	checkNewSnapshots(e, before, w, now, fail) // snapshots are also created on request, without any change to the aggregates
	for _, a := range fresh {
		q := string(a.QueryId)
		e.RC.Count("aggregates_appended", 1)
		if a.Ts <= lastTs[q] && lastTs[q] != 0 {
			fail("not-after", fmt.Sprintf("new aggregate of %x has timestamp %d <= previous %d", a.QueryId, a.Ts, lastTs[q]))
		}
		if a.Agg.Index != lastIdx[q]+1 {
			fail("index-gap", fmt.Sprintf("new aggregate of %x has index %d, previous was %d", a.QueryId, a.Agg.Index, lastIdx[q]))
		}
		lastTs[q], lastIdx[q] = a.Ts, a.Agg.Index
	}
}

// probeAggregateGetters compares every lookup with the chronological list model of each query, at one probe per
// region of the timestamp axis (before the first, at, just before/after every stored timestamp, far after).
func probeAggregateGetters(e *Explorer, w *World, all []AggKV, fail func(oracle, detail string)) {
	ok := w.App.OracleKeeper
	byQ := map[string][]AggKV{}
	var order []string
	for _, a := range all {
		k := string(a.QueryId)
		if _, seen := byQ[k]; !seen {
			order = append(order, k)
		}
		byQ[k] = append(byQ[k], a)
	}
	for _, k := range order {
		l := byQ[k]
		sort.Slice(l, func(i, j int) bool { return l[i].Ts < l[j].Ts })
		qid := []byte(k)
		reporters := map[string]bool{}
		probes := []uint64{0, 1, 1 << 62}
		for _, a := range l {
			probes = append(probes, a.Ts-1, a.Ts, a.Ts+1)
			if a.Agg.AggregateReporter != "" {
				reporters[a.Agg.AggregateReporter] = true
			}
		}
		e.RC.Count("getter_probe_sets", 1)
		// current
		cur, cts, err := ok.GetCurrentAggregateReport(w.Ctx, qid)
		if err != nil || cur == nil || uint64(cts.UnixMilli()) != l[len(l)-1].Ts || cur.Index != l[len(l)-1].Agg.Index {
			fail("getter-current", fmt.Sprintf("GetCurrentAggregateReport(%x..) does not return the newest aggregate (ts %d)", qid[:4], l[len(l)-1].Ts))
		}
		// by index
		for i := 0; i <= len(l)+1; i++ {
			a, ts, err := ok.GetAggregateByIndex(w.Ctx, qid, uint64(i))
			if i < len(l) {
				if err != nil || a == nil || uint64(ts.UnixMilli()) != l[i].Ts {
					fail("getter-by-index", fmt.Sprintf("GetAggregateByIndex(%x..,%d) does not return the %d-th aggregate in time order", qid[:4], i, i))
				}
			} else if err == nil && a != nil {
				fail("getter-by-index", fmt.Sprintf("GetAggregateByIndex(%x..,%d) returns an aggregate although only %d exist", qid[:4], i, len(l)))
			}
		}
		for _, T := range probes {
			tt := time.UnixMilli(int64(T))
			// reference answers
			var before, beforeUnflagged, after *AggKV
			for i := range l {
				if l[i].Ts < T {
					before = &l[i]
					if !l[i].Agg.Flagged {
						beforeUnflagged = &l[i]
					}
				}
				if l[i].Ts > T && after == nil {
					after = &l[i]
				}
			}
			gb, gts, err := ok.GetAggregateBefore(w.Ctx, qid, tt)
			if beforeUnflagged == nil {
				if err == nil && gb != nil {
					fail("getter-before", fmt.Sprintf("GetAggregateBefore(%x..,%d) returns data although no unflagged aggregate precedes", qid[:4], T))
				}
			} else if err != nil || gb == nil || uint64(gts.UnixMilli()) != beforeUnflagged.Ts || gb.Flagged {
				fail("getter-before", fmt.Sprintf("GetAggregateBefore(%x..,%d) should return the unflagged aggregate at %d", qid[:4], T, beforeUnflagged.Ts))
			}
			tb, err := ok.GetTimestampBefore(w.Ctx, qid, tt)
			if before == nil {
				if err == nil {
					fail("getter-timestamp-before", fmt.Sprintf("GetTimestampBefore(%x..,%d) returns %d although nothing precedes", qid[:4], T, tb.UnixMilli()))
				}
			} else if err != nil || uint64(tb.UnixMilli()) != before.Ts {
				fail("getter-timestamp-before", fmt.Sprintf("GetTimestampBefore(%x..,%d) = %d (err %v), the chronological predecessor is at %d", qid[:4], T, tb.UnixMilli(), err, before.Ts))
			}
			ta, err := ok.GetTimestampAfter(w.Ctx, qid, tt)
			if after == nil {
				if err == nil {
					fail("getter-timestamp-after", fmt.Sprintf("GetTimestampAfter(%x..,%d) returns %d although nothing follows", qid[:4], T, ta.UnixMilli()))
				}
			} else if err != nil || uint64(ta.UnixMilli()) != after.Ts {
				fail("getter-timestamp-after", fmt.Sprintf("GetTimestampAfter(%x..,%d) = %d (err %v), the chronological successor is at %d", qid[:4], T, ta.UnixMilli(), err, after.Ts))
			}
			at, err := ok.GetAggregateByTimestamp(w.Ctx, qid, tt)
			exact := false
			for i := range l {
				if l[i].Ts == T {
					exact = true
					if err != nil || at.Index != l[i].Agg.Index {
						fail("getter-by-timestamp", fmt.Sprintf("GetAggregateByTimestamp(%x..,%d) does not return the stored aggregate", qid[:4], T))
					}
				}
			}
			if !exact && err == nil {
				fail("getter-by-timestamp", fmt.Sprintf("GetAggregateByTimestamp(%x..,%d) returns data for a timestamp that holds no aggregate", qid[:4], T))
			}
			for r := range reporters {
				var want *AggKV
				for i := range l {
					if l[i].Ts < T && !l[i].Agg.Flagged && l[i].Agg.AggregateReporter == r {
						want = &l[i]
					}
				}
				got, err := ok.GetAggregateBeforeByReporter(w.Ctx, qid, tt, sdk.MustAccAddressFromBech32(r))
				if (want == nil) != (got == nil) || err != nil || (want != nil && got.Index != want.Agg.Index) {
					fail("getter-before-by-reporter", fmt.Sprintf("GetAggregateBeforeByReporter(%x..,%d,%s) disagrees with the list", qid[:4], T, short(r)))
				}
			}
		}
	}
}

// checkNewSnapshots: the previous/next report timestamps of every attestation snapshot created in this
// transition equal the neighbours in the query's chronological list at that moment.
func checkNewSnapshots(e *Explorer, before, w *World, all []AggKV, fail func(oracle, detail string)) {
	old := map[string]bool{}
	_ = before.App.BridgeKeeper.AttestSnapshotDataMap.Walk(before.Ctx, nil, func(k []byte, _ bridgetypes.AttestationSnapshotData) (bool, error) {
		old[string(k)] = true
		return false, nil
	})
	_ = w.App.BridgeKeeper.AttestSnapshotDataMap.Walk(w.Ctx, nil, func(k []byte, d bridgetypes.AttestationSnapshotData) (bool, error) {
		if old[string(k)] {
			return false, nil
		}
		var prev, next uint64
		for _, a := range all {
			if !bytes.Equal(a.QueryId, d.QueryId) {
				continue
			}
			if a.Ts < d.Timestamp && a.Ts > prev {
				prev = a.Ts
			}
			if a.Ts > d.Timestamp && (next == 0 || a.Ts < next) {
				next = a.Ts
			}
		}
		e.RC.Count("snapshots_checked", 1)
		if d.PrevReportTimestamp != prev || d.NextReportTimestamp != next {
			fail("snapshot-neighbours", fmt.Sprintf("attestation snapshot of %x.. at %d records previous/next %d/%d, the list neighbours are %d/%d", d.QueryId[:4], d.Timestamp, d.PrevReportTimestamp, d.NextReportTimestamp, prev, next))
		}
		return false, nil
	})
}

func derefReports(l []*oracletypes.MicroReport) []oracletypes.MicroReport {
	var out []oracletypes.MicroReport
	for _, r := range l {
		if r != nil {
			out = append(out, *r)
		}
	}
	return out
}
