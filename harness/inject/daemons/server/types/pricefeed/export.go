//go:build verif

package types

import "time"

// VerifEntry is one stored (time, price) pair.
type VerifEntry struct {
	Time  time.Time
	Price uint64
}

// VerifSnapshot copies the internal table without taking the lock (the caller
// runs it while no operation is in flight).
func (mte *MarketToExchangePrices) VerifSnapshot() map[uint32]map[string]VerifEntry {
	out := map[uint32]map[string]VerifEntry{}
	for m, etp := range mte.marketToExchangePrices {
		out[m] = map[string]VerifEntry{}
		for e, pt := range etp.exchangeToPriceTimestamp {
			out[m][e] = VerifEntry{Time: pt.LastUpdateTime, Price: pt.Price}
		}
	}
	return out
}
