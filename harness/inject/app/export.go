//go:build verif

package app

import (
	abci "github.com/cometbft/cometbft/abci/types"

	sdk "github.com/cosmos/cosmos-sdk/types"
)

// VerifPreBlocker exposes the exact PreBlocker closure that New() installs in
// baseapp (module-manager PreBlock followed by the proposal handler's
// PreBlocker), bound to a proposal handler built from the same keepers.
func (app *App) VerifPreBlocker() func(sdk.Context, *abci.RequestFinalizeBlock) (*sdk.ResponsePreBlock, error) {
	ph := NewProposalHandler(app.Logger(), app.StakingKeeper, app.AppCodec(), app.OracleKeeper, app.BridgeKeeper, app.StakingKeeper)
	return app.preBlocker(ph)
}

// VerifProposalHandler returns a proposal handler wired like the one in New().
func (app *App) VerifProposalHandler() *ProposalHandler {
	return NewProposalHandler(app.Logger(), app.StakingKeeper, app.AppCodec(), app.OracleKeeper, app.BridgeKeeper, app.StakingKeeper)
}

// VerifHandlerPair returns one proposal handler and the PreBlocker closure bound to that same instance, as New() wires
// them: whatever the handler keeps in memory between ProcessProposal and PreBlocker is shared, like on a real node.
func (app *App) VerifHandlerPair() (*ProposalHandler, func(sdk.Context, *abci.RequestFinalizeBlock) (*sdk.ResponsePreBlock, error)) {
	ph := NewProposalHandler(app.Logger(), app.StakingKeeper, app.AppCodec(), app.OracleKeeper, app.BridgeKeeper, app.StakingKeeper)
	return ph, app.preBlocker(ph)
}

// VerifVoteExtHandler returns a vote-extension handler wired like the one in New().
func (app *App) VerifVoteExtHandler() *VoteExtHandler {
	return NewVoteExtHandler(app.Logger(), app.AppCodec(), app.OracleKeeper, app.BridgeKeeper)
}

// VerifStoreKeys lists the names of all mounted KV stores.
func (app *App) VerifStoreKeys() []string {
	out := make([]string, 0, len(app.keys))
	for k := range app.keys {
		out = append(out, k)
	}
	return out
}
