// Package zzseam is the nondeterminism seam injected by the verification
// overlay (engine E2): every `range` over a map and every time.Now in the
// repository's own packages is routed through it so that the explorer, not the
// Go runtime, decides the answer. With no controller installed the seam is
// neutral: keys are delivered in sorted order, the clock is the real clock.
package zzseam

import (
	"fmt"
	"sort"
	"sync"
	"time"
)

// Controller decides the order in which the keys of one dynamic map-range
// occurrence are delivered. It receives the site ("file:line"), the running
// occurrence number and the number of keys; it returns a permutation of
// 0..n-1 over the canonically sorted key list (nil = identity).
type Controller func(site string, occurrence int, n int) []int

var (
	mu         sync.Mutex
	controller Controller
	occ        int
	// Clock, when set, replaces time.Now in the rewritten packages.
	Clock func() time.Time
)

// Install sets the controller and resets the occurrence counter.
func Install(c Controller) {
	mu.Lock()
	controller, occ = c, 0
	mu.Unlock()
}

// Keys returns the keys of m in the order chosen by the controller.
func Keys[K comparable, V any](m map[K]V, site string) []K {
	keys := make([]K, 0, len(m))
	for k := range m {
		keys = append(keys, k)
	}
	sort.Slice(keys, func(i, j int) bool { return fmt.Sprint(keys[i]) < fmt.Sprint(keys[j]) })
	mu.Lock()
	c := controller
	o := occ
	occ++
	mu.Unlock()
	if c == nil || len(keys) < 2 {
		if c != nil {
			c(site, o, len(keys))
		}
		return keys
	}
	perm := c(site, o, len(keys))
	if perm == nil {
		return keys
	}
	if len(perm) != len(keys) {
		panic(fmt.Sprintf("zzseam: controller returned %d indexes for %d keys at %s", len(perm), len(keys), site))
	}
	out := make([]K, len(keys))
	for i, p := range perm {
		out[i] = keys[p]
	}
	return out
}

// Now is the seamed clock.
func Now() time.Time {
	if Clock != nil {
		return Clock()
	}
	return time.Now()
}
