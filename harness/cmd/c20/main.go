//go:build verif

// c20 decides property C20 (price daemon median under concurrency):
//   - stateless DFS over all schedules of 2-3 threads x 1-2 operations on the
//     real MarketToExchangePrices under a cooperative scheduler (lock/unlock are
//     the scheduling points) with iterative preemption bounding; every recorded
//     call/return history is checked for linearizability against a sequential
//     map-based specification by brute force; stored (time, price) must move
//     forward only;
//   - bounded-exhaustive enumeration of lib.Median against a big-integer reference;
//   - "race" sub-command: the same bodies free-running under the race detector.
package main

import (
	"bufio"
	"encoding/json"
	"fmt"
	"math/big"
	"os"
	"os/exec"
	"sort"
	"strings"
	"sync"
	"time"

	clienttypes "github.com/tellor-io/layer/daemons/pricefeed/client/types"
	servertypes "github.com/tellor-io/layer/daemons/server/types"
	pf "github.com/tellor-io/layer/daemons/server/types/pricefeed"
	"github.com/tellor-io/layer/lib"
	"github.com/tellor-io/layer/zzverif/vsync"
)

const maxAge = 10 * time.Second

var t0 = time.Date(2024, 1, 1, 0, 0, 0, 0, time.UTC)

func at(s int) *time.Time { t := t0.Add(time.Duration(s) * time.Second); return &t }

// ---- operations ---------------------------------------------------------------

type op struct {
	Kind    string // "update" | "read"
	Updates []upd
	ReadAt  int      // seconds after t0
	MinEx   []uint32 // per market (markets 1,2)
}
type upd struct {
	Market   uint32
	Exchange string
	Price    uint64
	T        int
}

func (o op) String() string {
	if o.Kind == "read" {
		return fmt.Sprintf("Read(at=%d,min=%v)", o.ReadAt, o.MinEx)
	}
	var l []string
	for _, u := range o.Updates {
		l = append(l, fmt.Sprintf("m%d/%s=%d@%d", u.Market, u.Exchange, u.Price, u.T))
	}
	return "Update(" + strings.Join(l, ",") + ")"
}

func apply(m *pf.MarketToExchangePrices, o op) map[uint32]uint64 {
	if o.Kind == "read" {
		params := []clienttypes.MarketParam{{Id: 1, MinExchanges: o.MinEx[0]}, {Id: 2, MinExchanges: o.MinEx[1]}}
		return m.GetValidMedianPrices(params, t0.Add(time.Duration(o.ReadAt)*time.Second))
	}
	byMarket := map[uint32]*servertypes.MarketPriceUpdate{}
	var order []uint32
	for _, u := range o.Updates {
		mp := byMarket[u.Market]
		if mp == nil {
			mp = &servertypes.MarketPriceUpdate{MarketId: u.Market}
			byMarket[u.Market] = mp
			order = append(order, u.Market)
		}
		mp.ExchangePrices = append(mp.ExchangePrices, &servertypes.ExchangePrice{ExchangeId: u.Exchange, Price: u.Price, LastUpdateTime: at(u.T)})
	}
	var l []*servertypes.MarketPriceUpdate
	for _, id := range order {
		l = append(l, byMarket[id])
	}
	m.UpdatePrices(l)
	return nil
}

// ---- sequential specification ------------------------------------------------------

type specState map[uint32]map[string][2]int64 // market -> exchange -> (unix nano, price as int64 bits)

func (s specState) clone() specState {
	o := specState{}
	for m, e := range s {
		o[m] = map[string][2]int64{}
		for k, v := range e {
			o[m][k] = v
		}
	}
	return o
}

func refMedianU(vals []uint64) uint64 {
	s := append([]uint64(nil), vals...)
	sort.Slice(s, func(i, j int) bool { return s[i] < s[j] })
	n := len(s)
	if n%2 == 1 {
		return s[n/2]
	}
	sum := new(big.Int).Add(new(big.Int).SetUint64(s[n/2-1]), new(big.Int).SetUint64(s[n/2]))
	q, r := new(big.Int).QuoRem(sum, big.NewInt(2), new(big.Int))
	if r.Sign() != 0 {
		q.Add(q, big.NewInt(1)) // away from zero
	}
	return q.Uint64()
}

func specApply(s specState, o op) (specState, map[uint32]uint64) {
	if o.Kind == "update" {
		n := s.clone()
		for _, u := range o.Updates {
			if n[u.Market] == nil {
				n[u.Market] = map[string][2]int64{}
			}
			cur, ok := n[u.Market][u.Exchange]
			nt := at(u.T).UnixNano()
			if !ok || nt > cur[0] { // a fresh entry holds the zero time, every real time is after it
				n[u.Market][u.Exchange] = [2]int64{nt, int64(u.Price)}
			}
		}
		return n, nil
	}
	cut := t0.Add(time.Duration(o.ReadAt)*time.Second - maxAge).UnixNano()
	out := map[uint32]uint64{}
	for i, mk := range []uint32{1, 2} {
		ex, ok := s[mk]
		if !ok {
			continue
		}
		var valid []uint64
		for _, v := range ex {
			if v[0] >= cut {
				valid = append(valid, uint64(v[1]))
			}
		}
		if len(valid) >= int(o.MinEx[i]) && len(valid) > 0 {
			out[mk] = refMedianU(valid)
		}
	}
	return s, out
}

func sameRead(a, b map[uint32]uint64) bool {
	if len(a) != len(b) {
		return false
	}
	for k, v := range a {
		if w, ok := b[k]; !ok || w != v {
			return false
		}
	}
	return true
}

// ---- history + linearizability ---------------------------------------------------------

type call struct {
	Thread   int
	Op       op
	Inv, Res int // logical clock
	Out      map[uint32]uint64
}

// linearizable: is there a total order consistent with real time whose sequential outputs match?
func linearizable(calls []call) bool {
	n := len(calls)
	used := make([]bool, n)
	var rec func(done int, st specState) bool
	rec = func(done int, st specState) bool {
		if done == n {
			return true
		}
		for i := 0; i < n; i++ {
			if used[i] {
				continue
			}
			// i may go next only if no unused call finished before i was invoked
			ok := true
			for j := 0; j < n; j++ {
				if !used[j] && j != i && calls[j].Res < calls[i].Inv {
					ok = false
				}
			}
			if !ok {
				continue
			}
			ns, out := specApply(st, calls[i].Op)
			if calls[i].Op.Kind == "read" && !sameRead(out, calls[i].Out) {
				continue
			}
			used[i] = true
			if rec(done+1, ns) {
				return true
			}
			used[i] = false
		}
		return false
	}
	return rec(0, specState{})
}

// ---- scenarios -----------------------------------------------------------------------

type scenario struct {
	Name    string
	Threads [][]op
}

func scenarios(thorough bool) []scenario {
	both := func(p1, p2 uint64, t int) op {
		return op{Kind: "update", Updates: []upd{{1, "e1", p1, t}, {2, "e1", p2, t}}}
	}
	rd := func(atS int, m1, m2 uint32) op { return op{Kind: "read", ReadAt: atS, MinEx: []uint32{m1, m2}} }
	sc := []scenario{
		{"two-writers-one-reader", [][]op{{both(100, 1000, 10)}, {both(200, 2000, 20)}, {rd(25, 1, 1)}}},
		{"stale-vs-fresh", [][]op{{both(100, 1000, 20)}, {both(999, 9999, 10), both(300, 3000, 20)}, {rd(25, 1, 1), rd(30, 1, 1)}}},
		{"two-exchanges-median", [][]op{
			{{Kind: "update", Updates: []upd{{1, "e1", 10, 10}, {2, "e1", 1<<64 - 1, 10}}}},
			{{Kind: "update", Updates: []upd{{1, "e2", 13, 11}, {2, "e2", 1<<64 - 2, 11}}}},
			{rd(20, 2, 2), rd(20, 1, 0)}}},
		{"cutoff-boundary", [][]op{{both(5, 50, 10)}, {both(7, 70, 11)}, {rd(20, 1, 1), rd(21, 1, 1)}}},
		{"equal-timestamps", [][]op{{both(1, 10, 10)}, {both(2, 20, 10)}, {rd(12, 1, 1)}}},
		{"reader-between-markets", [][]op{{both(100, 1000, 10), both(200, 2000, 20)}, {rd(25, 1, 1), rd(25, 1, 1)}}},
		// a read that finds an entry stale must not forget it: a late read, then an older update, then an earlier read
		// an exchange that reports an unchanged price again is as fresh as its latest report
		{"same-price-again", [][]op{{both(100, 1000, 10), both(100, 1000, 25), rd(30, 1, 1)}, {rd(31, 1, 1)}}},
		{"late-read-then-older-update", [][]op{{both(100, 1000, 20), rd(40, 1, 1), both(50, 500, 15), rd(25, 1, 1)}, {rd(26, 1, 1)}}},
	}
	if thorough {
		sc = append(sc,
			scenario{"three-writers-reader", [][]op{{both(1, 10, 10), both(4, 40, 13)}, {both(2, 20, 11)}, {both(3, 30, 12)}, {rd(20, 1, 1)}}},
			scenario{"two-readers", [][]op{{both(1, 10, 10), both(2, 20, 12)}, {rd(15, 1, 1), rd(23, 1, 1)}, {rd(15, 1, 1), rd(21, 0, 2)}}},
		)
	}
	return sc
}

// ---- exploration ------------------------------------------------------------------------

type stats struct {
	Schedules, Points, Histories, Deadlocks int
	Outcomes                                map[string]bool
}

type violation struct {
	Sig, Detail string
	Scenario    string
	Choices     []int
}

func runOnce(sc scenario, choices []int) (*vsync.Scheduler, []call, string) {
	m := pf.NewMarketToExchangePrices(maxAge)
	var calls []call
	clock := 0
	var fwd string
	last := map[string]pf.VerifEntry{}
	bodies := make([]func(), len(sc.Threads))
	for ti, ops := range sc.Threads {
		ti, ops := ti, ops
		bodies[ti] = func() {
			for _, o := range ops {
				clock++
				c := call{Thread: ti, Op: o, Inv: clock}
				c.Out = apply(m, o)
				clock++
				c.Res = clock
				calls = append(calls, c)
				// forward-only check on the internal table (no operation holds the lock here)
				for mk, ex := range m.VerifSnapshot() {
					for e, v := range ex {
						k := fmt.Sprintf("%d/%s", mk, e)
						if p, ok := last[k]; ok && v.Time.Before(p.Time) {
							fwd = fmt.Sprintf("stored time of %s moved backwards %v -> %v", k, p.Time, v.Time)
						}
						last[k] = v
					}
				}
			}
		}
	}
	s := vsync.Run(choices, bodies)
	return s, calls, fwd
}

func preemptionsBefore(tr []vsync.Point, i int) int {
	n := 0
	for j := 0; j < i; j++ {
		if tr[j].RunningStillEnable && tr[j].Choice != 0 {
			n++
		}
	}
	return n
}

func explore(sc scenario, bound int, st *stats, viol *[]violation) {
	var rec func(prefix []int)
	rec = func(prefix []int) {
		s, calls, fwd := runOnce(sc, prefix)
		st.Schedules++
		st.Points += len(s.Trace)
		choices := make([]int, len(s.Trace))
		for i, p := range s.Trace {
			choices[i] = p.Choice
		}
		if s.Deadlock {
			st.Deadlocks++
			*viol = append(*viol, violation{"sched|deadlock", "no thread enabled before all finished", sc.Name, choices})
		}
		if fwd != "" {
			*viol = append(*viol, violation{"sched|time-not-monotonic", fwd, sc.Name, choices})
		}
		st.Histories++
		var outs []string
		for _, c := range calls {
			if c.Op.Kind == "read" {
				outs = append(outs, fmt.Sprintf("t%d:%v", c.Thread, c.Out))
			}
		}
		sort.Strings(outs)
		st.Outcomes[sc.Name+"|"+strings.Join(outs, ";")] = true
		if !linearizable(calls) {
			var h []string
			for _, c := range calls {
				h = append(h, fmt.Sprintf("[t%d %d-%d %s -> %v]", c.Thread, c.Inv, c.Res, c.Op, c.Out))
			}
			*viol = append(*viol, violation{"sched|not-linearizable", "history has no sequential explanation: " + strings.Join(h, " "), sc.Name, choices})
		}
		for i := len(prefix); i < len(s.Trace); i++ {
			p := s.Trace[i]
			cost := preemptionsBefore(s.Trace, i)
			if p.RunningStillEnable {
				cost++
			}
			if cost > bound {
				continue
			}
			for alt := 1; alt < len(p.Enabled); alt++ {
				rec(append(append([]int{}, choices[:i]...), alt))
			}
		}
	}
	rec(nil)
}

// ---- Median enumeration ---------------------------------------------------------------------

func refMedianS(vals []int64) int64 {
	s := append([]int64(nil), vals...)
	sort.Slice(s, func(i, j int) bool { return s[i] < s[j] })
	n := len(s)
	if n%2 == 1 {
		return s[n/2]
	}
	sum := new(big.Int).Add(big.NewInt(s[n/2-1]), big.NewInt(s[n/2]))
	q, r := new(big.Int).QuoRem(sum, big.NewInt(2), new(big.Int)) // truncated toward zero
	if r.Sign() != 0 {
		q.Add(q, big.NewInt(int64(sum.Sign()))) // away from zero
	}
	return q.Int64()
}

func medianEnum(maxLen int, viol *[]violation) (evals int, distinct int) {
	ua := []uint64{0, 1, 2, 1<<63 - 1, 1 << 63, 1<<64 - 2, 1<<64 - 1}
	sa := []int64{-1 << 63, -1<<63 + 1, -2, -1, 0, 1, 2, 1<<63 - 2, 1<<63 - 1}
	seen := map[string]bool{}
	var recU func(cur []uint64)
	recU = func(cur []uint64) {
		if len(cur) > 0 {
			evals++
			got, err := lib.Median(cur)
			want := refMedianU(cur)
			if err != nil || got != want {
				*viol = append(*viol, violation{"median|uint64", fmt.Sprintf("Median(%v)=%d,%v want %d", cur, got, err, want), "median", nil})
			}
			k := fmt.Sprint(cur)
			if !seen[k] && len(cur) > 1 {
				seen[k] = true
				distinct++
			}
		}
		if len(cur) == maxLen {
			return
		}
		for _, v := range ua {
			recU(append(append([]uint64(nil), cur...), v))
		}
	}
	recU(nil)
	var recS func(cur []int64)
	recS = func(cur []int64) {
		if len(cur) > 0 {
			evals++
			got, err := lib.Median(cur)
			want := refMedianS(cur)
			if err != nil || got != want {
				*viol = append(*viol, violation{"median|int64", fmt.Sprintf("Median(%v)=%d,%v want %d", cur, got, err, want), "median", nil})
			}
		}
		if len(cur) == maxLen-1 {
			return
		}
		for _, v := range sa {
			recS(append(append([]int64(nil), cur...), v))
		}
	}
	recS(nil)
	if _, err := lib.Median([]uint64{}); err == nil {
		*viol = append(*viol, violation{"median|empty", "Median of an empty list returned no error", "median", nil})
	}
	return
}

// ---- free-running race pass ------------------------------------------------------------------

func raceBodies() {
	m := pf.NewMarketToExchangePrices(maxAge)
	var wg sync.WaitGroup
	for g := 0; g < 16; g++ {
		g := g
		wg.Add(1)
		go func() {
			defer wg.Done()
			for i := 0; i < 300; i++ {
				for _, sc := range scenarios(true) {
					for _, ops := range sc.Threads {
						o := ops[(i+g)%len(ops)]
						// shift times forward every iteration so that writers keep writing
						o2 := o
						o2.ReadAt += i
						o2.Updates = nil
						for _, u := range o.Updates {
							u.T += i
							o2.Updates = append(o2.Updates, u)
						}
						apply(m, o2)
					}
				}
			}
		}()
	}
	wg.Wait()
	fmt.Println("race-pass-done")
}

// ---- driver ------------------------------------------------------------------------------------

func root() string {
	if r := os.Getenv("VERIF_ROOT"); r != "" {
		return r
	}
	return "/verif"
}

type known struct {
	Kind, Property, Signature, What string
}

func loadKnown() []known {
	var out []known
	f, err := os.Open(root() + "/known_findings.jsonl")
	if err != nil {
		return nil
	}
	defer f.Close()
	sc := bufio.NewScanner(f)
	sc.Buffer(make([]byte, 1<<20), 1<<20)
	for sc.Scan() {
		l := strings.TrimSpace(sc.Text())
		if l == "" || strings.HasPrefix(l, "#") {
			continue
		}
		var k known
		if json.Unmarshal([]byte(l), &k) == nil {
			out = append(out, k)
		}
	}
	return out
}

func main() {
	if len(os.Args) > 1 && os.Args[1] == "race" {
		raceBodies()
		return
	}
	tier := "quick"
	replay := ""
	for i, a := range os.Args {
		if a == "--tier" && i+1 < len(os.Args) {
			tier = os.Args[i+1]
		}
		if a == "--replay" && i+1 < len(os.Args) {
			replay = os.Args[i+1]
		}
	}
	if v := os.Getenv("VERIF_TIER"); v != "" && tier == "quick" {
		tier = v
	}
	start := time.Now()
	thorough := tier == "thorough"
	var viol []violation
	st := &stats{Outcomes: map[string]bool{}}

	if replay != "" {
		bz, err := os.ReadFile(replay)
		if err != nil {
			fmt.Fprintln(os.Stderr, err)
			os.Exit(2)
		}
		var v violation
		json.Unmarshal(bz, &v)
		for _, sc := range scenarios(true) {
			if sc.Name == v.Scenario {
				a, callsA, _ := runOnce(sc, v.Choices)
				b, callsB, _ := runOnce(sc, v.Choices)
				if fmt.Sprint(a.Trace) != fmt.Sprint(b.Trace) || fmt.Sprint(callsA) != fmt.Sprint(callsB) {
					fmt.Println("HARNESS-ERROR: replay of the same schedule diverged")
					os.Exit(2)
				}
				if !linearizable(callsA) {
					fmt.Printf("REPRODUCED property=C20 signature=%q\n", v.Sig)
					os.Exit(1)
				}
			}
		}
		fmt.Println("NOT-REPRODUCED")
		return
	}

	bound := 2
	if thorough {
		bound = 3
	}
	completed := -1
	var perBound []map[string]int
	for b := 0; b <= bound; b++ {
		bs := &stats{Outcomes: st.Outcomes}
		for _, sc := range scenarios(thorough) {
			explore(sc, b, bs, &viol)
		}
		perBound = append(perBound, map[string]int{"preemption_bound": b, "schedules": bs.Schedules, "points": bs.Points})
		st.Schedules += bs.Schedules
		st.Points += bs.Points
		st.Histories += bs.Histories
		completed = b
		if len(viol) > 0 {
			break // the first counterexample has the fewest preemptions
		}
	}
	// determinism self-check: the same schedule twice gives the same observations
	for _, sc := range scenarios(thorough) {
		a, ca, _ := runOnce(sc, []int{1})
		b, cb, _ := runOnce(sc, []int{1})
		if fmt.Sprint(a.Trace) != fmt.Sprint(b.Trace) || fmt.Sprint(ca) != fmt.Sprint(cb) {
			fmt.Println("HARNESS-ERROR: replaying one schedule twice gave different observations in", sc.Name)
			os.Exit(2)
		}
	}
	maxLen := 4
	if thorough {
		maxLen = 6
	}
	evals, distinct := medianEnum(maxLen, &viol)

	// race pass (separate free-running binary built with -race)
	raceOut := "not run"
	raceBin := root() + "/.build/c20-race"
	if _, err := os.Stat(raceBin); err == nil {
		cmd := exec.Command(raceBin, "race")
		cmd.Env = append(os.Environ(), "GORACE=halt_on_error=0 exitcode=66")
		out, err := cmd.CombinedOutput()
		so := string(out)
		switch {
		case strings.Contains(so, "WARNING: DATA RACE"):
			i := strings.Index(so, "WARNING: DATA RACE")
			end := i + 1500
			if end > len(so) {
				end = len(so)
			}
			viol = append(viol, violation{"race|data-race", "race detector report in the free-running pass:\n" + so[i:end], "race", nil})
			raceOut = "DATA RACE"
		case err != nil || !strings.Contains(so, "race-pass-done"):
			fmt.Println("HARNESS-ERROR: race pass failed:", err, so)
			os.Exit(2)
		default:
			raceOut = "clean"
		}
	} else {
		fmt.Println("HARNESS-ERROR: race binary missing:", raceBin)
		os.Exit(2)
	}

	// classify
	kn := loadKnown()
	dedup := map[string]violation{}
	for _, v := range viol {
		if o, ok := dedup[v.Sig]; !ok || len(v.Choices) < len(o.Choices) {
			dedup[v.Sig] = v
		}
	}
	exit := 0
	unknown := 0
	os.MkdirAll(root()+"/replays/C20", 0o755)
	var sigs []string
	for s := range dedup {
		sigs = append(sigs, s)
	}
	sort.Strings(sigs)
	for _, s := range sigs {
		v := dedup[s]
		matched := false
		for _, k := range kn {
			if k.Kind == "finding" && k.Property == "C20" && k.Signature == v.Sig {
				fmt.Printf("KNOWN-FINDING: property=C20 %s [%s]\n", k.What, v.Sig)
				matched = true
			}
		}
		if matched {
			continue
		}
		unknown++
		p := fmt.Sprintf("%s/replays/C20/%s.json", root(), strings.NewReplacer("|", "_", "/", "_").Replace(v.Sig))
		bz, _ := json.MarshalIndent(v, "", " ")
		os.WriteFile(p, bz, 0o644)
		fmt.Printf("VIOLATION property=C20 replay=%s\n  sig=%q scenario=%s schedule=%v\n  %s\n", p, v.Sig, v.Scenario, v.Choices, v.Detail)
		exit = 1
	}
	var samples []interface{}
	for _, sc := range scenarios(thorough) {
		var th []string
		for _, ops := range sc.Threads {
			var l []string
			for _, o := range ops {
				l = append(l, o.String())
			}
			th = append(th, strings.Join(l, " ; "))
		}
		samples = append(samples, map[string]interface{}{"scenario": sc.Name, "threads": th})
		if len(samples) >= 4 {
			break
		}
	}
	seed := 0
	fmt.Sscan(os.Getenv("VERIF_SEED"), &seed)
	ev := map[string]interface{}{
		"property_id": "C20", "tier": tier, "seed": seed, "level": "model_checking", "wall_s": time.Since(start).Seconds(), "violations": unknown,
		"assumptions": []string{"scheduling points are the mutex operations of the price cache (the only synchronisation it uses); unsynchronised accesses are left to the separate free-running race-detector pass",
			"Go memory-model effects beyond the race detector, gRPC plumbing and time.Now in the median server are outside"},
		"coverage": map[string]interface{}{
			"states": st.Points, "transitions": st.Points, "schedules": st.Schedules, "traces_validated_against_impl": st.Histories,
			"preemption_bound_completed": completed, "per_bound": perBound, "distinct_observed_outcomes": len(st.Outcomes), "deadlocks": st.Deadlocks,
			"median_evaluations": evals, "median_distinct_inputs": distinct, "race_pass": raceOut, "exhaustive": true,
			"rule":    "all schedules with <= bound preemptions (iterated 0..bound) of each scenario on the real MarketToExchangePrices under the cooperative scheduler; brute-force linearizability of every history vs the sequential specification; Median over all lists up to the length bound over a 7-value (uint64) / 9-value (int64) boundary alphabet",
			"samples": samples,
		},
	}
	bz, _ := json.MarshalIndent(ev, "", " ")
	os.MkdirAll(root()+"/evidence", 0o755)
	os.WriteFile(root()+"/evidence/C20.json", bz, 0o644)
	if tier == "thorough" {
		os.MkdirAll(root()+"/evidence/thorough", 0o755)
		os.WriteFile(root()+"/evidence/thorough/C20.json", bz, 0o644)
	}
	fmt.Printf("C20 %s: schedules=%d points=%d outcomes=%d bound=%d median_evals=%d race=%s violations=%d wall=%.1fs\n", tier, st.Schedules, st.Points, len(st.Outcomes), completed, evals, raceOut, unknown, time.Since(start).Seconds())
	os.Exit(exit)
}
