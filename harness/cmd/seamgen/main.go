//go:build verif

// seamgen rewrites the repository's own packages so that every range over a
// map-typed expression and every time.Now call goes through package zzseam.
// Usage: seamgen <outdir> <overlay.json> [pattern...]
package main

import (
	"bytes"
	"encoding/json"
	"fmt"
	"go/ast"
	"go/format"
	"go/token"
	"go/types"
	"os"
	"path/filepath"
	"sort"
	"strings"

	"golang.org/x/tools/go/ast/astutil"
	"golang.org/x/tools/go/packages"
)

const seamPkg = "github.com/tellor-io/layer/zzverif/zzseam"

type site struct {
	File string `json:"file"`
	Line int    `json:"line"`
	Kind string `json:"kind"`
	Func string `json:"func"`
}

func main() {
	outdir, ovfile := os.Args[1], os.Args[2]
	patterns := os.Args[3:]
	if len(patterns) == 0 {
		patterns = []string{"./x/...", "./app/...", "./lib/...", "./utils/...", "./types/..."}
	}
	cfg := &packages.Config{Mode: packages.NeedName | packages.NeedFiles | packages.NeedSyntax | packages.NeedTypes | packages.NeedTypesInfo | packages.NeedCompiledGoFiles, Dir: repoDir(),
	}
	pkgs, err := packages.Load(cfg, patterns...)
	if err != nil {
		fatal(err)
	}
	repl := map[string]string{}
	var sites []site
	var goStmts []site
	for _, p := range pkgs {
		if len(p.Errors) > 0 {
			fatal(fmt.Errorf("package %s: %v", p.PkgPath, p.Errors[0]))
		}
		if strings.Contains(p.PkgPath, "/zzverif") {
			continue
		}
		for i, f := range p.Syntax {
			fn := p.CompiledGoFiles[i]
			if strings.HasSuffix(fn, "_test.go") || strings.HasSuffix(fn, ".pb.go") || strings.HasSuffix(fn, ".pb.gw.go") || strings.HasSuffix(fn, ".pulsar.go") || !strings.HasPrefix(fn, repoDir()+"/") || strings.Contains(fn, "zzverif_") {
				continue
			}
			changed := false
			curFunc := ""
			astutil.Apply(f, func(c *astutil.Cursor) bool {
				switch n := c.Node().(type) {
				case *ast.FuncDecl:
					curFunc = n.Name.Name
				case *ast.GoStmt:
					pos := p.Fset.Position(n.Pos())
					goStmts = append(goStmts, site{File: rel(fn), Line: pos.Line, Kind: "go", Func: curFunc})
				case *ast.RangeStmt:
					tv, ok := p.TypesInfo.Types[n.X]
					if !ok {
						return true
					}
					mt, isMap := tv.Type.Underlying().(*types.Map)
					if !isMap {
						return true
					}
					_ = mt
					pos := p.Fset.Position(n.Pos())
					if mutatesMap(n) {
						fatal(fmt.Errorf("%s:%d: loop body mutates the ranged map; seamgen refuses to rewrite it", fn, pos.Line))
					}
					s := site{File: rel(fn), Line: pos.Line, Kind: "map-range", Func: curFunc}
					if n.Key == nil {
						sites = append(sites, site{File: s.File, Line: s.Line, Kind: "map-range(no vars, order unobservable)", Func: curFunc})
						return true
					}
					sites = append(sites, s)
					rewriteRange(n, fmt.Sprintf("%s:%d", s.File, s.Line))
					changed = true
				case *ast.CallExpr:
					if se, ok := n.Fun.(*ast.SelectorExpr); ok {
						if id, ok := se.X.(*ast.Ident); ok && se.Sel.Name == "Now" {
							if pn, ok := p.TypesInfo.Uses[id].(*types.PkgName); ok && pn.Imported().Path() == "time" {
								pos := p.Fset.Position(n.Pos())
								sites = append(sites, site{File: rel(fn), Line: pos.Line, Kind: "time.Now", Func: curFunc})
								se.X = ast.NewIdent("zzseam")
								changed = true
							}
						}
					}
				}
				return true
			}, nil)
			if !changed {
				continue
			}
			astutil.AddImport(p.Fset, f, seamPkg)
			if !astutil.UsesImport(f, "time") {
				astutil.DeleteImport(p.Fset, f, "time")
			}
			var buf bytes.Buffer
			if err := format.Node(&buf, p.Fset, f); err != nil {
				fatal(fmt.Errorf("format %s: %v", fn, err))
			}
			dst := filepath.Join(outdir, strings.TrimPrefix(fn, repoDir()+"/"))
			os.MkdirAll(filepath.Dir(dst), 0o755)
			if err := os.WriteFile(dst, buf.Bytes(), 0o644); err != nil {
				fatal(err)
			}
			repl[fn] = dst
		}
	}
	sort.Slice(sites, func(i, j int) bool { return sites[i].File+fmt.Sprint(sites[i].Line) < sites[j].File+fmt.Sprint(sites[j].Line) })
	bz, _ := json.MarshalIndent(map[string]interface{}{"Replace": repl}, "", " ")
	if err := os.WriteFile(ovfile, bz, 0o644); err != nil {
		fatal(err)
	}
	sz, _ := json.MarshalIndent(map[string]interface{}{"sites": sites, "go_statements": goStmts}, "", " ")
	os.WriteFile(filepath.Join(outdir, "sites.json"), sz, 0o644)
	fmt.Printf("seamgen: %d seam sites in %d files, %d go statements\n", len(sites), len(repl), len(goStmts))
}

// repoDir is /repo unless VERIF_REPO names another checkout (harness development only).
func repoDir() string {
	if d := os.Getenv("VERIF_REPO"); d != "" {
		return d
	}
	return "/repo"
}

func rel(fn string) string { return strings.TrimPrefix(fn, repoDir()+"/") }

func fatal(err error) {
	fmt.Fprintln(os.Stderr, "seamgen:", err)
	os.Exit(1)
}

// mutatesMap reports whether the loop body deletes from or assigns into the ranged map.
func mutatesMap(r *ast.RangeStmt) bool {
	name := exprString(r.X)
	found := false
	ast.Inspect(r.Body, func(n ast.Node) bool {
		switch x := n.(type) {
		case *ast.CallExpr:
			if id, ok := x.Fun.(*ast.Ident); ok && id.Name == "delete" && len(x.Args) > 0 && exprString(x.Args[0]) == name {
				found = true
			}
		case *ast.AssignStmt:
			for _, l := range x.Lhs {
				if ix, ok := l.(*ast.IndexExpr); ok && exprString(ix.X) == name {
					// assigning to an existing key of the ranged map does not change the key set if the key is the loop key
					if k, ok := r.Key.(*ast.Ident); ok && exprString(ix.Index) == k.Name {
						continue
					}
					found = true
				}
			}
		}
		return true
	})
	return found
}

func exprString(e ast.Expr) string {
	var b bytes.Buffer
	format.Node(&b, token.NewFileSet(), e)
	return b.String()
}

// rewriteRange turns `for k, v := range m {B}` into
// `for _, k := range zzseam.Keys(m, site) { v := m[k]; B }`.
func rewriteRange(r *ast.RangeStmt, siteName string) {
	m := r.X
	key := r.Key
	val := r.Value
	keyIdent, _ := key.(*ast.Ident)
	if keyIdent != nil && keyIdent.Name == "_" {
		// need a real key variable to index with
		key = ast.NewIdent("zzKey")
		if r.Tok == token.ASSIGN {
			// `for _, v = range m`: declare the key with := is not possible in an = loop; switch to define and assign v inside
			r.Tok = token.DEFINE
			if val != nil {
				asg := &ast.AssignStmt{Lhs: []ast.Expr{val}, Tok: token.ASSIGN, Rhs: []ast.Expr{&ast.IndexExpr{X: m, Index: ast.NewIdent("zzKey")}}}
				r.Body.List = append([]ast.Stmt{asg}, r.Body.List...)
				val = nil
			}
		}
	}
	if val != nil {
		if vi, ok := val.(*ast.Ident); !ok || vi.Name != "_" {
			tok := r.Tok
			asg := &ast.AssignStmt{Lhs: []ast.Expr{val}, Tok: tok, Rhs: []ast.Expr{&ast.IndexExpr{X: m, Index: key}}}
			stmts := []ast.Stmt{asg}
			if tok == token.DEFINE {
				// silence "declared and not used" exactly as range does (range vars may be unused only if blank; keep a use)
				stmts = append(stmts, &ast.AssignStmt{Lhs: []ast.Expr{ast.NewIdent("_")}, Tok: token.ASSIGN, Rhs: []ast.Expr{val}})
			}
			r.Body.List = append(stmts, r.Body.List...)
		}
	}
	r.Key = ast.NewIdent("_")
	r.Value = key
	r.X = &ast.CallExpr{Fun: &ast.SelectorExpr{X: ast.NewIdent("zzseam"), Sel: ast.NewIdent("Keys")},
		Args: []ast.Expr{m, &ast.BasicLit{Kind: token.STRING, Value: fmt.Sprintf("%q", siteName)}}}
}
