//go:build verif

package main

import (
	"fmt"
	"os"
	"time"

	"github.com/tellor-io/layer/zzverif/mc"
)

func main() {
	if len(os.Args) > 1 && os.Args[1] == "spike" {
		t0 := time.Now()
		w := mc.NewWorld(mc.Config{})
		fmt.Println("newworld", time.Since(t0))
		t0 = time.Now()
		for i := 0; i < 100; i++ {
			if !w.Block(time.Second) {
				fmt.Println("HALT", w.Halt)
				os.Exit(3)
			}
		}
		fmt.Println("100 blocks", time.Since(t0), "h", w.Height())
		t0 = time.Now()
		h := w.StateHash()
		fmt.Printf("hash %x %v supply %s sum %s\n", h[:8], time.Since(t0), w.Supply(), w.SumBalances())
		return
	}
	if len(os.Args) > 1 && os.Args[1] == "skeleton" {
		mc.ShowSkeletons(os.Args[2:])
		return
	}
	os.Exit(mc.Main(os.Args[1:]))
}
