// Package vsync is the controlled-scheduler shim (engine E4). Overlay copies of
// the price daemon's files import it in place of "sync": Mutex.Lock/Unlock are
// scheduling points of a cooperative scheduler when one is installed, and plain
// sync.Mutex operations otherwise (free-running mode for the race detector).
package vsync

import (
	"fmt"
	"sync"
)

// Mutex mirrors sync.Mutex.
type Mutex struct {
	real  sync.Mutex
	owner int // 0 = free; thread id + 1 otherwise (controlled mode only)
}

// WaitGroup, Once, RWMutex are passed through so that rewritten files keep compiling.
type (
	WaitGroup = sync.WaitGroup
	Once      = sync.Once
	Map       = sync.Map
)

type pointKind int

const (
	pStart pointKind = iota
	pLock
	pUnlock
	pEnd
)

type thread struct {
	id      int
	resume  chan struct{}
	pending pointKind
	mu      *Mutex
	done    bool
}

// Scheduler runs a set of thread bodies under a chosen schedule.
type Scheduler struct {
	threads []*thread
	yield   chan *thread
	current *thread
	// Choices is the schedule prefix to replay; after it choice 0 is taken.
	Choices []int
	// Trace records, for every scheduling point, the enabled thread ids in canonical order and the choice taken.
	Trace []Point
	// Deadlock is set when no thread was enabled although some had not finished.
	Deadlock bool
}

type Point struct {
	Enabled            []int
	Choice             int
	RunningStillEnable bool
}

var active *Scheduler

// tls maps goroutines to threads: bodies call through closures that carry the thread.
var curThread *thread

func (m *Mutex) Lock() {
	s := active
	if s == nil {
		m.real.Lock()
		return
	}
	t := curThread
	t.pending, t.mu = pLock, m
	s.yieldAndWait(t)
	if m.owner != 0 {
		panic("vsync: scheduler resumed a thread on a held mutex")
	}
	m.owner = t.id + 1
}

func (m *Mutex) Unlock() {
	s := active
	if s == nil {
		m.real.Unlock()
		return
	}
	t := curThread
	if m.owner != t.id+1 {
		panic(fmt.Sprintf("vsync: unlock of mutex not held by thread %d", t.id))
	}
	m.owner = 0
	t.pending, t.mu = pUnlock, nil
	s.yieldAndWait(t)
}

func (m *Mutex) TryLock() bool {
	if active == nil {
		return m.real.TryLock()
	}
	if m.owner != 0 {
		return false
	}
	m.owner = curThread.id + 1
	return true
}

func (s *Scheduler) yieldAndWait(t *thread) {
	s.yield <- t
	<-t.resume
	curThread = t
}

// Run executes the bodies under the scheduler's choice prefix and returns when all have finished or deadlocked.
func Run(choices []int, bodies []func()) *Scheduler {
	s := &Scheduler{yield: make(chan *thread), Choices: choices}
	active = s
	defer func() { active = nil; curThread = nil }()
	for i, b := range bodies {
		t := &thread{id: i, resume: make(chan struct{}), pending: pStart}
		s.threads = append(s.threads, t)
		b := b
		go func() {
			<-t.resume
			curThread = t
			b()
			t.pending, t.done = pEnd, true
			s.yield <- t
		}()
	}
	var running *thread
	for {
		var enabled []*thread
		runningEnabled := false
		for _, t := range s.threads {
			if t.done {
				continue
			}
			if t.pending == pLock && t.mu.owner != 0 {
				continue
			}
			if t == running {
				runningEnabled = true
			} else {
				enabled = append(enabled, t)
			}
		}
		if runningEnabled {
			enabled = append([]*thread{running}, enabled...)
		}
		if len(enabled) == 0 {
			for _, t := range s.threads {
				if !t.done {
					s.Deadlock = true
				}
			}
			return s
		}
		choice := 0
		if len(s.Trace) < len(s.Choices) {
			choice = s.Choices[len(s.Trace)]
			if choice >= len(enabled) {
				panic(fmt.Sprintf("vsync: replay diverged: choice %d of %d enabled at point %d", choice, len(enabled), len(s.Trace)))
			}
		}
		ids := make([]int, len(enabled))
		for i, t := range enabled {
			ids[i] = t.id
		}
		s.Trace = append(s.Trace, Point{Enabled: ids, Choice: choice, RunningStillEnable: runningEnabled})
		running = enabled[choice]
		running.resume <- struct{}{}
		<-s.yield // the thread runs until its next scheduling point (or its end)
	}
}
