#!/bin/bash
# build.sh <out-binary> [extra mkoverlay args...]  — builds /repo (current working tree) + harness overlay
set -euo pipefail
export GOFLAGS=-mod=mod GOPROXY=off GOSUMDB=off GOTOOLCHAIN=local CGO_ENABLED=1
ROOT=${VERIF_ROOT:-/verif}
REPO=${VERIF_REPO:-/repo} # harness development only: the registered commands always build /repo
export VERIF_REPO=$REPO
OUT=$1; shift
mkdir -p "$ROOT/.build"
OV=$(mktemp "$ROOT/.build/ov.XXXXXX.json")
trap 'rm -f $OV' EXIT
VERIF_ROOT=$ROOT python3 "$ROOT/tools/mkoverlay.py" "$OV" "$@"
cd "$REPO"
go build -tags verif -overlay "$OV" -o "$OUT" ./zzverif/cmd/vmain
