#!/bin/bash
# build.sh <out-binary> [extra mkoverlay args...]  — builds /repo (current working tree) + harness overlay
set -euo pipefail
export GOFLAGS=-mod=mod GOPROXY=off GOSUMDB=off GOTOOLCHAIN=local CGO_ENABLED=1
OUT=$1; shift
mkdir -p /verif/.build
OV=$(mktemp /verif/.build/ov.XXXXXX.json)
trap 'rm -f $OV' EXIT
python3 /verif/tools/mkoverlay.py "$OV" "$@"
cd /repo
go build -tags verif -overlay "$OV" -o "$OUT" ./zzverif/cmd/vmain
