#!/usr/bin/env python3
"""seedreadme.py — regenerates seeded/README.md from seeded/*/meta.json (all rounds) and seeded/notes.json
(per-seed notes on what had to be strengthened and when; written by hand)."""
import json, os

root = os.environ.get("VERIF_ROOT", os.path.dirname(os.path.dirname(os.path.abspath(__file__))))
sd = os.path.join(root, "seeded")
notes = {}
if os.path.exists(os.path.join(sd, "notes.json")):
    notes = json.load(open(os.path.join(sd, "notes.json")))

rows, stats = [], {}
for d in sorted(os.listdir(sd)):
    mp = os.path.join(sd, d, "meta.json")
    if not os.path.exists(mp):
        continue
    m = json.load(open(mp))
    rnd = {"": 1, "b": 2, "c": 3, "d": 4, "e": 5}[d[3:]]
    runs = m.get("checks", {}).get("runs", [])
    passes = sorted({r["pass"] for r in runs})
    first = [r for r in runs if r["pass"] == (passes[0] if passes else 0)]
    caught_first = any(r["caught"] for r in first)
    caught_any = any(r["caught"] for r in runs)
    if m.get("superseded_by_fix"):
        rows.append("| %s | `%s` | %s | n/a | n/a: no longer breaks the property on the repaired tree (fix %s) | %s |" % (
            d, m["files_changed"][0], m["summary"].replace("\n", " ").replace("|", "/")[:230], m["superseded_by_fix"]["commit"], notes.get(d, {}).get("what", "")))
        stats.setdefault(rnd, {"n": 0, "first": 0, "final": 0, "void": 0})
        stats[rnd]["void"] = stats[rnd].get("void", 0) + 1
        continue
    st = stats.setdefault(rnd, {"n": 0, "first": 0, "final": 0})
    st["n"] += 1; st["first"] += caught_first; st["final"] += caught_any
    catchers = []
    for r in runs:
        if r["caught"]:
            sig = (r["signatures"][0] if r["signatures"] else "-").replace("|", "/")  # a pipe would split the table cell
            if len(sig) > 90:
                sig = sig[:87] + "..."
            c = "%s: `%s`" % (r["check"], sig)
            if c not in catchers:
                catchers.append(c)
    n = notes.get(d, {})
    when = n.get("when", "-" if caught_first else "after first pass")
    what = n.get("what", "none" if caught_first else "?")
    summary = m["summary"].replace("\n", " ").replace("|", "/")
    if len(summary) > 230:
        summary = summary[:227] + "..."
    rows.append("| %s | `%s` | %s | %s | %s | %s: %s |" % (d, m["files_changed"][0], summary, "yes" if caught_first else "**no**",
                                                      "; ".join(catchers) if catchers else "**not caught**", when, what))

head = """# Seeded changes

Property-breaking changes written by fresh sub-agents that saw only the text of one property (plus, from the second
round on, a one-sentence summary of the earlier changes to the same property, so that they would pick another
mechanism) and a scratch `git worktree` of /repo under /tmp - nothing from /verif. `<id>` = first round, `<id>b`,
`<id>c`, `<id>d`, `<id>e` = later rounds (round 5: six properties only). Each directory holds

* `patch.diff` - the change (source only), applies to /repo with `git -C /repo apply`;
* `demo_test.go` - the agent's demonstration (copy to `<demo_dir>/zz_seed_demo_test.go`, run pattern in `meta.json`);
* `meta.json` - the agent's description (`summary`, `needs` = what it takes to manifest), `confirmed` (what
  `tools/seedverify.sh` re-ran in a fresh scratch worktree: build ok, the repository's own suite passes with the
  change, the demo fails with it and passes without it) and `checks.runs` (what `tools/seedtest.sh` observed when the
  change was applied to /repo, the quick check of the property run, and the change reverted; `pass` 1 is the first
  measured run, later passes follow a strengthening of the checks).

None of these changes is committed to /repo. `tools/seedall.sh quick [ids]` repeats the experiment;
`tools/seedrecord.py` / `tools/seedreadme.py` regenerate `checks.runs` and this file.

## Result

%s

Round 4 was run while the machine was occupied by the thorough tiers: its first-pass loop was stopped after two seeds
(one missed, one caught), the other eighteen descriptions were read, obvious gaps were closed first (marked *before
first pass* below), and the pass recorded here is the one measured afterwards on /repo.

Every miss was an **alphabet gap** (a boundary value, a second participant, a particular alignment of two events in
one block that the driver could not produce) or a **missing oracle for a clause** (e.g. flag completeness, the chain's
own snapshot digests, "excess never shrinks"); none was a wrong oracle. Each gap was closed by a generalisation - a new
event class, skeleton, world or oracle stated in terms of the property - never by keying on the change. Column
*strengthening* says what was added and whether that happened before the first measured pass (the agent's `needs`
text was read first and the gap was obvious) or after a measured miss.

| seed | file | change (agent's summary) | caught in first pass | caught by (first signature per check) | strengthening |
|---|---|---|---|---|---|
"""
res = "\n".join("* round %d: %d changes, %d caught by the first measured pass, %d caught now" % (r, s["n"], s["first"], s["final"]) +
                (" (+%d that no longer breaks its property since a later `fix:` commit)" % s["void"] if s.get("void") else "") for r, s in sorted(stats.items()))
open(os.path.join(sd, "README.md"), "w").write(head % res + "\n".join(rows) + """

Own mutants (`/verif/mutants/*.patch`, one line each, written with knowledge of the checks) are run by
`tools/selftest.sh`; results are in `mutants/RESULTS.md`.
""")
print(res)
