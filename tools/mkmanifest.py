#!/usr/bin/env python3
"""Regenerates /verif/MANIFEST.json from the table below (single source of truth for claimed checks)."""
import json

ALL = ["C%02d" % i for i in range(1, 21)]

E1 = "chainmc"
checks = {
 "C02": dict(engine=E1, level="model_checking",
   text="every history within <=1 (quick) / <=2 (thorough) deviations from 7 happy-path skeletons, deviations drawn from ~190 message variants of every module plus 8 block gaps, is executed on the real app and run to a quiescence horizon; Pre/Begin/EndBlocker must never fail",
   note="bounded: deviation bound, alphabet and skeletons as listed in evidence; SDK ante decorators other than the stake-change limiter are not executed; a registered-EVM bonded validator is assumed to exist",
   technique="deviation-bounded exhaustive exploration of the real state machine (explicit-state model checking of the implementation)"),
 "C03": dict(engine=E1, level="model_checking",
   text="a shadow supply ledger written from the statement is compared with the real bank supply on every transition of the deviation-bounded histories and of a focused exhaustive DFS (mint start, sub-ms to multi-day gaps, tips, deposits, withdrawals)",
   note="amount alphabets are small boundary sets; distribution/gov modules run for real but are not modelled (any supply change by them would be flagged)",
   technique="explicit-state exploration (DFS with state-hash dedup + deviation-bounded histories) with a lock-step reference ledger"),
 "C04": dict(engine=E1, level="model_checking",
   text="escrow-coverage invariants at every block boundary and a branch probe attempting every entitled claim in two orders, over all deviation-bounded histories; dispute inflow must equal what the dispute records",
   note="one genuine defect (fee-from-stake truncation) is a recorded known finding with an exact expected deviation; credit sums are compared up to the 1e-18-per-credit rounding C09 allows",
   technique="deviation-bounded exhaustive exploration of the real app with invariant monitors and branch probes"),
 "C05": dict(engine=E1, level="model_checking",
   text="pool-backs-ledger invariants (bonded / not-bonded pools vs validators and unbonding entries) and the SDK staking invariants after every accepted operation and block of all deviation-bounded histories, incl. a MaxValidators=2 world where validators change bonding status",
   note="bounded as C02; exchange rate of validators stays 1 (no x/slashing events in the alphabet)",
   technique="deviation-bounded exhaustive exploration of the real app with invariant monitors"),
 "C08": dict(engine=E1, level="model_checking",
   text="append-only diff of the whole Aggregates collection across every transition of all deviation-bounded histories",
   note="getter/list-model comparison is added by the dedicated scenario (see evidence rule)",
   technique="deviation-bounded exhaustive exploration of the real app with a transition monitor"),
 "C19": dict(engine=E1, level="model_checking",
   text="authority gating and third-party frame (balance, stake, credit, selection of every non-signer) checked around every accepted tx of all deviation-bounded histories; every privileged message is also offered with a non-authority signer",
   note="signers are taken from the protobuf cosmos.msg.v1.signer annotation via the app codec",
   technique="deviation-bounded exhaustive exploration of the real app with a frame monitor"),
 "C01": dict(engine="seams", level="model_checking",
   text="whole histories are re-executed on the real app built from seam-rewritten sources: once per dynamic map-range occurrence and alternative key order, under an adversarial wall clock, under a different node configuration and plainly a second time; per-block digests (all stores + events) and tx accept vectors must be identical",
   note="map ranges inside cosmos-sdk/cometbft/go-ethereum are not seamed; gas not in the digest; seam neutrality is self-checked by the plain re-run of the rewritten build",
   technique="exhaustive enumeration of map-iteration orders / clock / config deviations over deviation-bounded histories (differential replay, stateless model checking of the implementation)"),
 "C06": dict(engine="enum", level="exploration",
   text="every report list up to n reporters over boundary value/power alphabets in every arrival order is fed to the real WeightedMedian/WeightedMode and compared with the definition; for the mode every iteration order of its frequency map is forced through the seam",
   note="values outside the alphabet are not covered; mode powers capped at 1000 in the alphabet (O(power) loop)",
   technique="bounded-exhaustive input enumeration against a definition-level reference, with exhaustive map-order enumeration via the seam"),
 "C15": dict(engine="enum", level="exploration",
   text="full products of boundary alphabets for every encoder compared byte-for-byte with an independent ABI encoder + keccak driven by the parsed contract sources; signatures made the chain's way are checked against a transcription of _verifySig",
   note="no EVM/solc available: the contract side is an independent implementation of the ABI spec applied to the parsed Solidity text; ecrecover via go-ethereum",
   technique="bounded-exhaustive input enumeration against an independent reference derived from the contract sources"),
 "C18": dict(engine=E1, level="model_checking",
   text="every transaction of up to 3/4 staking messages over boundary amounts and baseline/current ratios is offered to the real ante decorator; tracker refresh rule monitored on all deviation-bounded histories",
   note="current bonded total supplied by a stub staking keeper in the enumeration part (the decorator only reads it); one direction as stated",
   technique="bounded-exhaustive enumeration of transactions + deviation-bounded exploration with a tracker monitor"),
 "C20": dict(engine="sched", level="model_checking",
   text="all schedules with <=2 (quick) / <=3 (thorough) preemptions of 2-4 threads x 1-2 operations on the real price cache under a cooperative scheduler, each history checked for linearizability by brute force and for forward-only timestamps; lib.Median enumerated over boundary lists; a separate free-running -race pass of the same bodies",
   note="scheduling points are the cache's mutex operations; memory-model effects beyond the race detector and the gRPC plumbing are outside",
   technique="stateless model checking (DFS over schedules with iterative preemption bounding) + brute-force linearizability + bounded-exhaustive input enumeration + race-detector pass"),
 "C07": dict(engine=E1, level="model_checking",
   text="a round monitor written from the statement (acceptance guard, replacement, exactly-one aggregate per closed round, tips stay/are paid, cycle rotation rule) evaluated on an exhaustive DFS over tips/reports/rotation/governance events and on all deviation-bounded histories",
   note="'scheduled cycle-list query' is read per round (the rotation's flag on the round); deposits may re-open their round as the statement allows; one direction for acceptance, as stated",
   technique="explicit-state DFS with state-hash dedup + deviation-bounded exploration, transition monitor as lock-step reference"),
 "C09": dict(engine=E1, level="model_checking",
   text="exact-rational reward reference at every EndBlock over commission-rate/topology worlds (incl. every out-of-range rate CreateReporter accepts), a reporter paid for two aggregates in one block, an exhaustive DFS and all deviation-bounded histories",
   note="proportional shares are compared up to (2R+terms)x1e-18 because the implementation multiplies an 18-decimal power ratio by the reward; sums up to terms x 1e-18; out-of-range commission rates are a recorded known finding",
   technique="explicit-state exploration with an exact-arithmetic reference model evaluated in lock-step"),
 "C10": dict(engine=E1, level="model_checking",
   text="every accepted report's power and stake snapshot are compared with an independent recomputation from the staking/selector stores; join/cap/jail rules and the no-double-counting window are monitored; exhaustive DFS in two validator-cap worlds + deviation-bounded histories",
   note="multi-message transactions containing a report or join are not compared (reference state is taken before the whole tx)",
   technique="explicit-state DFS with state-hash dedup + deviation-bounded exploration with a lock-step reference"),
 "C12": dict(engine=E1, level="model_checking",
   text="TallyVote on every injected vote distribution over small counters/participation levels/timings against an exact-rational formula, plus a lifecycle/vote monitor (status edges, vote window, voter power, counter sums, recorded result) on an exhaustive DFS over vote orders and on all deviation-bounded histories",
   note="scores closer than 4e-6 accept either neighbour, exact ties accept any decided result; a team-address change during voting follows the implementation (statement silent)",
   technique="bounded-exhaustive state injection + explicit-state DFS with a lock-step reference model"),
 "C11": dict(engine=E1, level="model_checking",
   text="at every transition that funds a dispute the monitor recomputes the category share from the micro-report the reporter really stored and compares backer losses (on every validator and in unbonding entries), escrow, per-backer record, jail and flag; exhaustive DFS over staking histories between report and dispute x categories x fee patterns x genuine/altered/invented reports in two validator-cap worlds + deviation-bounded histories",
   note="three genuine defects are recorded known findings (altered value / altered power accepted, fractional-stake share denominator) with exact-deviation signatures; per-backer shares are not compared in transactions that also pay the fee from the same stake",
   technique="explicit-state DFS with state-hash dedup + deviation-bounded exploration with a lock-step reference"),
 "C13": dict(engine=E1, level="model_checking",
   text="a shadow settlement ledger follows every payment; at execution/expiry the burn and returned stake are compared with the amounts the result implies and, on a throw-away branch, every payer and voter claims in two orders (each once, second attempt rejected, pro-rata amounts, residual <= dust after subtracting the shortfalls already reported); exhaustive DFS over payment patterns/votes/timings incl. multi-round prefixes + deviation-bounded histories",
   note="ten genuine defects of the dispute refund logic are recorded known findings, each with a root-cause signature; minting is kept off so that payouts are not mixed with auto-withdrawn staking rewards",
   technique="explicit-state DFS with state-hash dedup + deviation-bounded exploration, lock-step shadow ledger and branch probes"),
}
design = {"C02": "§3 C02", "C03": "§3 C03", "C04": "§3 C04", "C05": "§3 C05", "C08": "§3 C08", "C19": "§3 C19"}

m = {
 "version": 1,
 "setup_cmd": "tools/setup.sh",
 "hooks": {
  "guard": "verif",
  "enable": "go build -tags verif -overlay <generated by tools/mkoverlay.py from /repo's working tree> ./zzverif/cmd/vmain  (harness files are injected as a virtual package plus zzverif_*.go files in package app; nothing is committed to /repo)",
  "baseline_off_cmd": "cd /repo && GOFLAGS=-mod=mod GOPROXY=off GOSUMDB=off GOTOOLCHAIN=local go test -json -vet=off -count=1 -timeout 25m ./...",
  "source_commits": [],
  "add_only": True,
 },
 "engines": [
  {"name": "chainmc", "path": "harness/mc", "serves_properties": sorted(k for k, v in checks.items() if v["engine"] == E1),
   "kind_free_text": "hand-written explicit-state / deviation-bounded explorer over the real application (copy-on-write branches of the real multistore), monitors, lock-step reference models, branch probes"},
  {"name": "seams", "path": "harness/cmd/seamgen + harness/zzseam", "serves_properties": sorted(k for k, v in checks.items() if v["engine"] == "seams") + ["C06"],
   "kind_free_text": "AST rewriter routing every map range / time.Now of the repository's packages through an explorer-controlled seam; differential replay over all orders"},
  {"name": "sched", "path": "harness/vsync + harness/cmd/c20", "serves_properties": ["C20"],
   "kind_free_text": "hand-written cooperative scheduler (sync shim injected by overlay), DFS over schedules with preemption bounding, brute-force linearizability checker"},
  {"name": "enum", "path": "harness/mc (c06.go, c15.go, evmref.go)", "serves_properties": sorted(k for k, v in checks.items() if v["engine"] == "enum"),
   "kind_free_text": "bounded-exhaustive input enumeration of pure functions against definition-level / contract-derived references"},
 ],
 "checks": [],
 "not_applicable": [],
}
for pid in ALL:
    if pid in checks:
        c = checks[pid]
        m["checks"].append({
            "property_id": pid,
            "quick_cmd": "./vcheck %s --tier quick" % pid,
            "thorough_cmd": "./vcheck %s --tier thorough" % pid,
            "evidence_file": "evidence/%s.json" % pid,
            "replay_cmd_template": "./vcheck %s --replay {path}" % pid,
            "engine": c["engine"],
            "level_claimed": {"category": c["level"], "text": c["text"], "design_ref": "DESIGN.md " + design.get(pid, "§3 " + pid)},
            "level_note": c["note"],
            "technique": c["technique"],
        })
    else:
        m["not_applicable"].append({"property_id": pid, "reason": "check not built yet (work in progress; see DESIGN.md §3 for the planned bounded-exhaustive check)"})
json.dump(m, open("/verif/MANIFEST.json", "w"), indent=1)
print("claimed:", [c["property_id"] for c in m["checks"]])
