#!/bin/bash
# build_c20.sh — builds the C20 harness: price-daemon files that import "sync" are replaced by copies importing the
# scheduler shim; one normal binary (controlled scheduler) and one -race binary (free-running pass).
set -euo pipefail
export GOFLAGS=-mod=mod GOPROXY=off GOSUMDB=off GOTOOLCHAIN=local CGO_ENABLED=1
ROOT=${VERIF_ROOT:-/verif}
REPO=${VERIF_REPO:-/repo}
export VERIF_REPO=$REPO
mkdir -p "$ROOT/.build/c20src"
ARGS=()
for f in "$REPO"/daemons/server/types/pricefeed/*.go "$REPO"/daemons/pricefeed/types/*.go; do
  case "$f" in *_test.go) continue;; esac
  if grep -q '^\s*"sync"' "$f"; then
    out="$ROOT/.build/c20src/$(echo "$f" | tr / _)"
    sed 's|^\(\s*\)"sync"|\1sync "github.com/tellor-io/layer/zzverif/vsync"|' "$f" > "$out"
    ARGS+=(--replace "$f=$out")
  fi
done
OV=$(mktemp "$ROOT/.build/ov.XXXXXX.json")
trap 'rm -f $OV' EXIT
VERIF_ROOT=$ROOT python3 "$ROOT/tools/mkoverlay.py" "$OV" "${ARGS[@]}"
cd "$REPO"
go build -tags verif -overlay "$OV" -o "$ROOT/.build/c20" ./zzverif/cmd/c20
go build -race -tags verif -overlay "$OV" -o "$ROOT/.build/c20-race" ./zzverif/cmd/c20
