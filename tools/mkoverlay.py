#!/usr/bin/env python3
"""Generate a go build overlay that injects /verif/harness into /repo's module.

/verif/harness/<dir>/...        -> /repo/zzverif/<dir>/...        (virtual packages)
/verif/harness/inject/<pkg>/f.go -> /repo/<pkg>/zzverif_f.go       (files added to existing packages)
Extra replacements can be given as  --replace /repo/path=/other/file  (used for mutants / seams).
"""
import json, os, sys

def main():
    out = sys.argv[1]
    repl = {}
    extra_dirs = []
    args = sys.argv[2:]
    i = 0
    while i < len(args):
        if args[i] == "--replace":
            k, v = args[i+1].split("=", 1); repl[k] = v; i += 2
        elif args[i] == "--merge":
            with open(args[i+1]) as f:
                repl.update(json.load(f)["Replace"]); i += 2
        else:
            raise SystemExit("bad arg " + args[i])
    root = os.path.join(os.environ.get("VERIF_ROOT", "/verif"), "harness")
    repo = os.environ.get("VERIF_REPO", "/repo")
    for d, _, files in os.walk(root):
        rel = os.path.relpath(d, root)
        for f in files:
            if not f.endswith(".go"):
                continue
            src = os.path.join(d, f)
            if rel.startswith("inject"):
                pkg = os.path.relpath(rel, "inject")
                dst = os.path.join(repo, pkg, "zzverif_" + f)
            else:
                dst = os.path.join(repo, "zzverif", rel, f)
            repl.setdefault(dst, src)
    with open(out, "w") as f:
        json.dump({"Replace": repl}, f, indent=1, sort_keys=True)

if __name__ == "__main__":
    main()
