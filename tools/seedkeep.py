#!/usr/bin/env python3
"""seedkeep.py <seed-out-dir> "<RESULT line of tools/seedverify.sh>" [suffix] — copies a confirmed seeded change into /verif/seeded/<id>/.

A change is kept only when it compiled, the repository's own suite passed with it, and its demonstration
failed with the change and passed without it (all re-run by tools/seedverify.sh in a scratch worktree).
"""
import json, os, re, shutil, sys

src, result = sys.argv[1], sys.argv[2]
suffix = sys.argv[3] if len(sys.argv) > 3 else ""  # e.g. "b" for the second round
root = os.environ.get("VERIF_ROOT", os.path.dirname(os.path.dirname(os.path.abspath(__file__))))
meta = json.load(open(os.path.join(src, "meta.json")))
pid = meta["property"]
want = dict(build="ok", suite_failing_pkgs="0", demo_with_change="fail", demo_without_change="pass")
got = dict(re.findall(r"(\w+)=(\S+)", result))
if any(got.get(k) != v for k, v in want.items()):
    sys.exit(f"{pid}: not confirmed ({result}) - not kept")
dst = os.path.join(root, "seeded", pid + suffix)
os.makedirs(dst, exist_ok=True)
shutil.copy(os.path.join(src, "patch.diff"), os.path.join(dst, "patch.diff"))
shutil.copy(os.path.join(src, "demo_test.go"), os.path.join(dst, "demo_test.go"))
run = re.search(r"-run[ =]+['\"]?([^'\" ]+)", meta.get("demo_run", ""))
meta["demo_file"] = "demo_test.go (copy to <demo_dir>/zz_seed_demo_test.go)"
meta["confirmed"] = {
    "how": "tools/seedverify.sh: fresh `git worktree add --detach` of /repo HEAD under /tmp; git apply patch.diff; go build ./...; "
           "go test -vet=off -count=1 ./... (daemons/pricefeed/client excepted: its TestStop is flaky in this sandbox without the change too); "
           f"demo copied in and run with -run '{run.group(1) if run else 'Demo'}' with the change and again after git apply -R; worktree removed",
    "result": got,
}
meta.setdefault("checks", {})
old = os.path.join(dst, "meta.json")
if os.path.exists(old):
    meta["checks"] = json.load(open(old)).get("checks", {})
json.dump(meta, open(old, "w"), indent=1)
print(f"{pid}: kept in {dst}")
