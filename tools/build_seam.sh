#!/bin/bash
# build_seam.sh — regenerates the seam overlay from /repo's current tree and builds $ROOT/.build/vmain-seam
set -euo pipefail
export GOFLAGS=-mod=mod GOPROXY=off GOSUMDB=off GOTOOLCHAIN=local CGO_ENABLED=1
ROOT=${VERIF_ROOT:-/verif}
REPO=${VERIF_REPO:-/repo}
export VERIF_REPO=$REPO
mkdir -p "$ROOT/.build/seam"
OV=$(mktemp "$ROOT/.build/ov.XXXXXX.json")
trap 'rm -f $OV' EXIT
VERIF_ROOT=$ROOT python3 "$ROOT/tools/mkoverlay.py" "$OV"
(cd "$REPO" && go build -tags verif -overlay "$OV" -o "$ROOT/.build/seamgen" ./zzverif/cmd/seamgen)
rm -rf "$ROOT/.build/seam/src"; mkdir -p "$ROOT/.build/seam/src"
(cd "$REPO" && "$ROOT/.build/seamgen" "$ROOT/.build/seam/src" "$ROOT/.build/seam/overlay.json")
VERIF_ROOT=$ROOT python3 "$ROOT/tools/mkoverlay.py" "$OV" --merge "$ROOT/.build/seam/overlay.json"
(cd "$REPO" && go build -tags verif -overlay "$OV" -o "$ROOT/.build/vmain-seam" ./zzverif/cmd/vmain)
