#!/bin/bash
# runall.sh [tier] — runs every claimed check and prints one summary line each
cd "$(dirname "$0")/.."
TIER=${1:-quick}
for p in $(python3 -c "import json;print(' '.join(c['property_id'] for c in json.load(open('MANIFEST.json'))['checks']))"); do
  out=$(./vcheck $p --tier $TIER 2>&1); rc=$?
  echo "$out" | grep -A2 "^VIOLATION" | grep -v "^--" | cut -c1-400
  echo "$out" | grep "^KNOWN\|HARNESS\|^C[0-9][0-9] " | cut -c1-220
  echo "exit($p)=$rc"
done
echo ALLDONE
