#!/usr/bin/env python3
"""seedrecord.py <log> <pass-no> [suffix] — records what tools/seedall.sh / tools/seedtest.sh printed (#### <seed>, == <check> exit=<rc>,
sig="..." lines) in seeded/<seed><suffix>/meta.json under checks.runs."""
import json, os, re, sys
log, pno = sys.argv[1], int(sys.argv[2])
suffix = sys.argv[3] if len(sys.argv) > 3 else ""
root = os.environ.get("VERIF_ROOT", os.path.dirname(os.path.dirname(os.path.abspath(__file__))))
seed, cur, res = None, None, {}
for l in open(log):
    l = l.rstrip("\n")
    if l.startswith("#### "):
        seed = l[5:].strip(); continue
    m = re.match(r"== (C\d\d) exit=(\d)", l)
    if m and seed:
        cur = {"check": m.group(1), "tier": "quick", "pass": pno, "exit": int(m.group(2)), "caught": m.group(2) == "1", "signatures": []}
        res.setdefault(seed, []).append(cur); continue
    m = re.search(r'sig="([^"]+)"', l)
    if m and cur is not None and m.group(1) not in cur["signatures"] and len(cur["signatures"]) < 6:
        cur["signatures"].append(m.group(1))
    if "HARNESS-ERROR" in l and cur is not None:
        cur["harness_error"] = True
for seed, runs in res.items():
    d = seed if seed.endswith(suffix) and suffix else seed + suffix
    mp = os.path.join(root, "seeded", d, "meta.json")
    if not os.path.exists(mp):
        print("no such seed dir", d); continue
    m = json.load(open(mp))
    ch = m.setdefault("checks", {})
    ch.setdefault("how", "tools/seedtest.sh: git -C /repo apply patch.diff; ./vcheck <check> --tier quick; git -C /repo checkout -- .")
    old = [r for r in ch.get("runs", []) if r.get("pass") != pno]
    ch["runs"] = old + runs
    json.dump(m, open(mp, "w"), indent=1)
    print(d, [(r["check"], r["pass"], r["caught"]) for r in runs])
