#!/bin/bash
# seedverify.sh <seed-out-dir> — confirms a seeded change in a scratch worktree of /repo:
#   suite passes with the change (daemons/pricefeed/client excepted), demo fails with it, demo passes without it.
set -uo pipefail
export GOFLAGS=-mod=mod GOPROXY=off GOSUMDB=off GOTOOLCHAIN=local
D=$(cd "$1" && pwd)
WT=${SEEDVERIFY_WT:-/tmp/seedverify.wt}   # fixed paths: the Go build cache is keyed by absolute paths, fresh paths fill the disk
git -C /repo worktree remove --force "$WT" >/dev/null 2>&1; rm -rf "$WT"; git -C /repo worktree prune
git -C /repo worktree add --detach "$WT" HEAD >/dev/null 2>&1 || { echo "worktree failed"; exit 2; }
trap 'git -C /repo worktree remove --force "$WT" >/dev/null 2>&1; rm -rf "$WT"' EXIT
cd "$WT"
DEMODIR=$(python3 -c "import json;print(json.load(open('$D/meta.json'))['demo_dir'])")
RUNPAT=$(python3 -c "
import json,re
m=json.load(open('$D/meta.json')).get('demo_run','')
r=re.search(r\"-run[ =]+['\\\"]?([^'\\\" ]+)\", m)
print(r.group(1) if r else 'Demo|DEMO|demo')")
git apply "$D/patch.diff" || { echo "RESULT apply=FAIL"; exit 1; }
go build ./... > "$D/verify_build.log" 2>&1 && BUILD=ok || BUILD=FAIL
go test -vet=off -count=1 ./... > "$D/verify_suite.log" 2>&1
SUITEFAIL=$(grep "^FAIL\s" "$D/verify_suite.log" | grep -v "daemons/pricefeed/client" | wc -l)
cp "$D/demo_test.go" "$DEMODIR/zz_seed_demo_test.go"
go test -vet=off -count=1 "./$DEMODIR/" -run "$RUNPAT" > "$D/verify_demo_with.log" 2>&1 && WITH=pass || WITH=fail
git apply -R "$D/patch.diff"
go test -vet=off -count=1 "./$DEMODIR/" -run "$RUNPAT" > "$D/verify_demo_without.log" 2>&1 && WITHOUT=pass || WITHOUT=fail
grep -q "no tests to run" "$D/verify_demo_with.log" && WITH=NOTRUN
echo "RESULT build=$BUILD suite_failing_pkgs=$SUITEFAIL demo_with_change=$WITH demo_without_change=$WITHOUT"
