#!/bin/bash
# Run once after a fresh restore (offline): pre-build the harness so that check runs are incremental.
set -euo pipefail
cd /verif
export GOFLAGS=-mod=mod GOPROXY=off GOSUMDB=off GOTOOLCHAIN=local
mkdir -p .build evidence
tools/build.sh /verif/.build/vmain
echo setup ok
