#!/bin/bash
# Run once after a fresh restore (offline): pre-build the harness so that check runs are incremental.
set -euo pipefail
ROOT=$(cd "$(dirname "$0")/.." && pwd)
export VERIF_ROOT=$ROOT
cd "$ROOT"
mkdir -p .build evidence
tools/build.sh "$ROOT/.build/vmain"
echo setup ok
