#!/usr/bin/env python3
"""seedprompt.py <round-dir> <prompt-dir> [suffix] — writes one sub-agent prompt per property (only the property's text
and the path of a scratch worktree are given; nothing from /verif). With a suffix (second round) the prompt names the
file of the first-round change so that a different mechanism is chosen."""
import json, os, sys
rd, pd = sys.argv[1], sys.argv[2]
suffix = sys.argv[3] if len(sys.argv) > 3 else ""
root = os.path.dirname(os.path.dirname(os.path.abspath(__file__)))
props = {}
for l in open(root + '/properties.jsonl'):
    d = json.loads(l); props[d['id']] = d
tmpl = '''You are helping to evaluate a verification effort by playing the role of a developer who introduces a subtle regression.

Repository: a git worktree of the Go project tellor-io/layer (a Cosmos SDK chain) at {wt} . Work ONLY inside {wt} and {out}. Do NOT read or list anything under /verif or /repo (they are off limits; using them would invalidate the experiment).

Environment (sealed sandbox, no network). For every shell command export:
  export GOFLAGS=-mod=mod GOPROXY=off GOSUMDB=off GOTOOLCHAIN=local
Run the repository's tests with:  cd {wt} && go test -vet=off -count=1 ./...   (a few minutes; the package daemons/pricefeed/client has a flaky test (TestStop) in this sandbox - ignore failures in that package only; the e2e/ directory is a separate module, ignore it).

The property that users of this system rely on:

  ID: {id}
  Title: {title}
  Statement: {statement}
  It must hold for: {quant}
  Code it is anchored in: {files}
  Why the existing unit tests do not settle it: {why}

Your task: make ONE realistic change to the non-test source code of the repository (a plausible refactoring slip, off-by-one, wrong variable, reordered statements, missing update of a second place, wrong boundary, etc. - NOT an obvious sabotage, no new dependencies, keep it small: ideally 1-15 changed lines) such that
  (a) the repository still compiles and ALL existing tests still pass (run them and check; only daemons/pricefeed/client may fail as it does without your change),
  (b) the property above is broken, but only under something specific: a particular interleaving, a particular multi-step sequence of operations, an unusual input or boundary value, a particular configuration, or two cooperating code sites that each look fine alone. A change that any ordinary use of the chain would expose at once is NOT wanted.
Do not edit, add or delete any existing *_test.go file as part of the change.{avoid}

Then write a demonstration: a NEW Go test file (it may live in an existing package directory of the worktree, e.g. next to the changed code, named zz_demo_{idl}_test.go) that FAILS with your change applied and PASSES on the unchanged code. Verify both directions yourself. To flip between the two use `git diff -- <changed files> > {out}/patch.diff; git checkout -- <changed files>; ...; git apply {out}/patch.diff` - do NOT use `git stash` (the stash is shared between worktrees and other people are working in sibling worktrees). The demonstration should exercise the real code (keepers / message servers / the functions involved), using the repository's existing test helpers where convenient.

Deliverables, written to {out}/ (create the directory):
  1. {out}/patch.diff   - `git diff` of the source change ONLY (without the demonstration test file),
  2. {out}/demo_test.go - the demonstration test file, with a first-line comment saying into which package directory (relative to the repo root) it has to be copied,
  3. {out}/meta.json    - JSON with keys: property ("{id}"), summary (one sentence: what was changed), needs (what specific sequence/input/configuration is needed for the breakage to manifest), files_changed (list), demo_dir (package directory for demo_test.go), demo_run (the exact `go test` command that runs only your demonstration), verified ("yes" only if you really observed: full suite passes with the change, demo fails with the change, demo passes without it).
Leave the worktree with your change applied and the demo file in place. In your final answer summarise the change, what is needed to trigger it, and the verification you performed. Be economical: do not explore more of the repository than you need.
'''
for pid, d in props.items():
    wt = '%s/%s' % (rd, pid); out = '%s/%s.out' % (rd, pid)
    avoid = ''
    prev = []
    for sfx in ['', 'b', 'c', 'd', 'e']:
        mp = '%s/seeded/%s%s/meta.json' % (root, pid, sfx)
        if suffix and sfx < suffix and os.path.exists(mp):
            prev.append(json.load(open(mp))['summary'].replace('\n', ' '))
    if prev:
        avoid = ('\nOther developers have already tried this exercise with these changes: ' + ' / '.join('"%s"' % x for x in prev) +
                 ' - choose a clearly different mechanism (a different function, and if the property has several clauses, preferably a clause none of them touched).')
    open('%s/%s.txt' % (pd, pid), 'w').write(tmpl.format(wt=wt, out=out, id=pid, idl=pid.lower(), title=d['title'], statement=d['statement'],
         quant=d['quantifier']['text'], files=', '.join(d['anchors'].get('files', [])), why=d['why_tests_cant'], avoid=avoid))
print('written', len(props))
