#!/bin/bash
# seedtest.sh <patch.diff> <tier> <Cxx> [Cxx...] — applies a change to /repo, runs the checks, reverts. Prints exit codes + first violation lines.
set -uo pipefail
P=$(readlink -f "$1"); TIER=$2; shift 2
cd /verif
git -C /repo apply "$P" || { echo "apply failed"; exit 2; }
trap 'git -C /repo checkout -- . >/dev/null 2>&1; git -C /repo clean -fdq' EXIT
for c in "$@"; do
  out=$(./vcheck $c --tier $TIER 2>&1); rc=$?
  echo "== $c exit=$rc"
  echo "$out" | grep -A2 "^VIOLATION" | grep -v "^--" | cut -c1-260 | head -12
  echo "$out" | grep "HARNESS\|^C[0-9][0-9] " | cut -c1-200
done
