#!/bin/bash
# seedall.sh [tier] [ids...] — runs each kept seeded change (seeded/<id>/patch.diff) against the check of its own property.
cd /verif
TIER=${1:-quick}; shift
IDS=${@:-$(ls seeded | grep '^C')}
for id in $IDS; do
  echo "#### $id"
  tools/seedtest.sh seeded/$id/patch.diff $TIER ${id:0:3}
done
