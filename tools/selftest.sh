#!/bin/bash
# selftest.sh [pattern] — applies each own mutant to the repository, runs the quick check of its property, expects a VIOLATION, reverts.
# Prints one line per mutant and appends a table to mutants/RESULTS.md. VERIF_REPO (default /repo) names the checkout to mutate
# (a scratch worktree lets this run while /repo itself is being checked).
ROOT=$(cd "$(dirname "$0")/.." && pwd)
REPO=${VERIF_REPO:-/repo}
cd "$ROOT"
PAT=${1:-C}
OUT=mutants/RESULTS.md
{ echo "# Own mutants"; echo; echo "Each patch is applied to a checkout of the repository ($REPO at $(git -C $REPO rev-parse --short HEAD)), the quick check of its property is run, the patch is reverted."; echo "Run: \`tools/selftest.sh\`. Last run: $(date -u +%Y-%m-%dT%H:%MZ)."; echo; echo "| mutant | check exit | first signatures |"; echo "|---|---|---|"; } > $OUT.new
for f in mutants/${PAT}*.patch; do
  id=$(basename $f .patch); prop=${id%%-*}
  git -C $REPO apply "$ROOT/$f" || { echo "$id apply-failed"; echo "| $id | apply failed | |" >> $OUT.new; continue; }
  out=$(./vcheck $prop --tier quick 2>&1); rc=$?
  git -C $REPO checkout -- . >/dev/null 2>&1
  sig=$(echo "$out" | grep -o 'sig="[^"]*"' | sort -u | head -3 | tr '\n' ' ')
  echo "$id exit=$rc $sig"
  echo "| $id | $rc | $(echo $sig | sed 's/|/\//g') |" >> $OUT.new
done
mv $OUT.new $OUT
git -C "$ROOT" checkout -- evidence replays 2>/dev/null; git -C "$ROOT" clean -fdq replays
