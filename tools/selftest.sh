#!/bin/bash
# selftest.sh [pattern] — applies each own mutant to /repo, runs the quick check of its property, expects a VIOLATION, reverts.
cd /verif
PAT=${1:-C}
for f in mutants/${PAT}*.patch; do
  id=$(basename $f .patch); prop=${id%%-*}
  git -C /repo apply "$f" || { echo "$id apply-failed"; continue; }
  out=$(./vcheck $prop --tier quick 2>&1); rc=$?
  git -C /repo checkout -- . >/dev/null 2>&1
  sig=$(echo "$out" | grep -o 'sig="[^"]*"' | head -3 | tr '\n' ' ')
  echo "$id exit=$rc $sig"
done
